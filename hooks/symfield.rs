// Engine S: the crate's *generic* butterfly code (CyclotomicFourier::{fft, ifft, split_fft, merge_fft},
// Inverse::batch_inverse_or_zero) instantiated on symbolic field types. Running the real generic functions on these
// types emits a QF_LIA script (one fresh remainder r and quotient k per field operation with a symbolic operand:
// r = e - m*k, 0 <= r < m); operations on constants fold in Rust. z3 then decides the negated identity: `unsat` means
// the identity holds for EVERY input vector in Z_m^n.
//
// The model of a field operation used here (exact ring operation mod m with a canonical result) is not assumed: it is
// what engine K proves about the real `Felt` operators for all canonical operands (C12).
#![allow(dead_code, unused_imports)]
use crate::cyclotomic_fourier::CyclotomicFourier;
use crate::falcon_field::Felt;
use crate::inverse::Inverse;
use num::{One, Zero};
use std::cell::RefCell;
use std::ops::{Add, Mul, MulAssign, Sub};

thread_local! {
    static MODULUS: RefCell<i64> = RefCell::new(12289);
    static SCRIPT: RefCell<(u32, Vec<String>)> = RefCell::new((0, vec![]));
}
fn m() -> i64 {
    MODULUS.with(|x| *x.borrow())
}
fn reset(modulus: i64) {
    MODULUS.with(|x| *x.borrow_mut() = modulus);
    SCRIPT.with(|s| *s.borrow_mut() = (0, vec![]));
}

#[derive(Clone, Copy, Debug)]
pub enum SymFelt {
    C(i64),
    V(u32),
}
use SymFelt::{C, V};

fn fresh(defn: String) -> SymFelt {
    let q = m();
    SCRIPT.with(|s| {
        let mut s = s.borrow_mut();
        let id = s.0;
        s.0 += 1;
        s.1.push(format!(
            "(declare-const r{id} Int)(declare-const k{id} Int)(assert (= r{id} (- {defn} (* {q} k{id}))))(assert (<= 0 r{id}))(assert (< r{id} {q}))"
        ));
        V(id)
    })
}
fn t(x: SymFelt) -> String {
    match x {
        C(c) => format!("{c}"),
        V(i) => format!("r{i}"),
    }
}
impl Add for SymFelt {
    type Output = Self;
    fn add(self, o: Self) -> Self {
        match (self, o) {
            (C(a), C(b)) => C((a + b) % m()),
            (C(0), x) | (x, C(0)) => x,
            _ => fresh(format!("(+ {} {})", t(self), t(o))),
        }
    }
}
impl Sub for SymFelt {
    type Output = Self;
    fn sub(self, o: Self) -> Self {
        match (self, o) {
            (C(a), C(b)) => C((a - b).rem_euclid(m())),
            (x, C(0)) => x,
            _ => fresh(format!("(- {} {})", t(self), t(o))),
        }
    }
}
impl Mul for SymFelt {
    type Output = Self;
    fn mul(self, o: Self) -> Self {
        match (self, o) {
            (C(a), C(b)) => C(((a as i128 * b as i128) % m() as i128) as i64),
            (C(0), _) | (_, C(0)) => C(0),
            (C(1), x) | (x, C(1)) => x,
            (C(_), _) | (_, C(_)) => fresh(format!("(* {} {})", t(self), t(o))),
            _ => panic!("S: product of two symbolic operands (non-linear) is outside this engine"),
        }
    }
}
impl MulAssign for SymFelt {
    fn mul_assign(&mut self, o: Self) {
        *self = *self * o;
    }
}
impl Zero for SymFelt {
    fn zero() -> Self {
        C(0)
    }
    fn is_zero(&self) -> bool {
        match self {
            C(c) => *c == 0,
            _ => panic!("S: is_zero on a symbolic element"),
        }
    }
}
impl One for SymFelt {
    fn one() -> Self {
        C(1)
    }
}
fn modpow(mut b: i128, mut e: i128, q: i128) -> i128 {
    let mut acc = 1i128;
    b %= q;
    while e > 0 {
        if e & 1 == 1 {
            acc = acc * b % q;
        }
        b = b * b % q;
        e >>= 1;
    }
    acc
}
impl Inverse for SymFelt {
    fn inverse_or_zero(self) -> Self {
        match self {
            // constants only (2^-1 in split_fft): computed by Fermat in i128, independent of the crate
            C(c) => C(modpow(c as i128, m() as i128 - 2, m() as i128) as i64),
            _ => panic!("S: inverse of a symbolic element"),
        }
    }
}
impl CyclotomicFourier for SymFelt {
    fn primitive_root_of_unity(_n: usize) -> Self {
        panic!("S: tables are passed explicitly")
    }
}

/// which tables: the crate's real constants, read through the fast_fft hook
fn tables(field: &str) -> (Vec<SymFelt>, Vec<SymFelt>, i64) {
    let h = crate::fast_fft::verif_hook::tables_i64(field);
    (h.0.into_iter().map(C).collect(), h.1.into_iter().map(C).collect(), h.2)
}
fn ninv(field: &str, n: usize) -> SymFelt {
    C(crate::fast_fft::verif_hook::ninv_i64(field, n))
}

fn declare_inputs(n: usize, prefix: &str, out: &mut String) -> Vec<SymFelt> {
    let q = m();
    let mut a = vec![];
    for i in 0..n {
        *out += &format!("(declare-const {prefix}{i} Int)(assert (<= 0 {prefix}{i}))(assert (< {prefix}{i} {q}))\n");
        a.push(fresh(format!("{prefix}{i}")));
    }
    a
}
fn flush(out: &mut String) {
    SCRIPT.with(|s| {
        for l in &s.borrow().1 {
            *out += l;
            *out += "\n";
        }
    });
}
fn neq(a: &[SymFelt], b: &[SymFelt]) -> String {
    let mut s = String::new();
    for (x, y) in a.iter().zip(b.iter()) {
        match (x, y) {
            (C(p), C(q)) => {
                if p != q {
                    s += " true";
                }
            }
            _ => s += &format!(" (not (= {} {}))", t(*x), t(*y)),
        }
    }
    s
}

/// emit <kind> <field> <n> [j]  ->  SMT-LIB2 script text (check-sat appended by the caller)
pub fn emit(kind: &str, field: &str, n: usize, j: usize) -> String {
    let (fwd, inv, modulus) = tables(field);
    reset(modulus);
    let mut out = String::from("(set-logic QF_LIA)\n");
    let mut goals = String::new();
    match kind {
        // ifft(fft(a)) = a
        "roundtrip" => {
            let a = declare_inputs(n, "x", &mut out);
            let mut b = a.clone();
            SymFelt::fft(&mut b, &fwd);
            SymFelt::ifft(&mut b, &inv, ninv(field, n));
            goals += &neq(&b, &a);
        }
        // fft(ifft(a)) = a
        "roundtrip2" => {
            let a = declare_inputs(n, "x", &mut out);
            let mut c = a.clone();
            SymFelt::ifft(&mut c, &inv, ninv(field, n));
            SymFelt::fft(&mut c, &fwd);
            goals += &neq(&c, &a);
        }
        // merge(split(F)) = F
        "mergesplit" => {
            let a = declare_inputs(n, "x", &mut out);
            let (f0, f1) = SymFelt::split_fft(&a, &inv);
            let merged = SymFelt::merge_fft(&f0, &f1, &fwd);
            goals += &neq(&merged, &a);
        }
        // split(fft(a)) = (fft(a_even), fft(a_odd)) and merge of the half transforms = the full transform
        "splitmerge" => {
            let a = declare_inputs(n, "x", &mut out);
            if n < 2 {
                let (f0, f1) = SymFelt::split_fft(&a, &inv);
                let merged = SymFelt::merge_fft(&f0, &f1, &fwd);
                goals += &neq(&merged, &a);
            }
            if n >= 2 {
                let mut fa = a.clone();
                SymFelt::fft(&mut fa, &fwd);
                let (g0, g1) = SymFelt::split_fft(&fa, &inv);
                let mut even: Vec<SymFelt> = a.iter().step_by(2).cloned().collect();
                let mut odd: Vec<SymFelt> = a.iter().skip(1).step_by(2).cloned().collect();
                SymFelt::fft(&mut even, &fwd);
                SymFelt::fft(&mut odd, &fwd);
                goals += &neq(&g0, &even);
                goals += &neq(&g1, &odd);
                // and merge of the two half transforms is the full transform
                let mg = SymFelt::merge_fft(&even, &odd, &fwd);
                goals += &neq(&mg, &fa);
            }
        }
        // ifft(fft(a) .* fft(X^j)) = X^j * a  mod (X^n + 1)
        "monomial" => {
            let a = declare_inputs(n, "x", &mut out);
            let mut fa = a.clone();
            SymFelt::fft(&mut fa, &fwd);
            let mut mono = vec![C(0); n];
            mono[j] = C(1);
            SymFelt::fft(&mut mono, &fwd);
            let mut prod: Vec<SymFelt> = fa.iter().zip(mono.iter()).map(|(x, y)| *x * *y).collect();
            SymFelt::ifft(&mut prod, &inv, ninv(field, n));
            let mut want = vec![C(0); n];
            for i in 0..n {
                let k = i + j;
                if k < n {
                    want[k] = a[i];
                } else {
                    want[k - n] = C(0) - a[i];
                }
            }
            goals += &neq(&prod, &want);
        }
        _ => panic!("unknown S kind"),
    }
    flush(&mut out);
    if goals.trim().is_empty() {
        out += "(assert false)\n";
    } else {
        out += &format!("(assert (or{goals}))\n");
    }
    out
}

// ------------------------------------------------------------------------------------------------ log-domain type for batch inversion
// F_q^* is cyclic of order q-1: a nonzero element is g^e, multiplication adds exponents mod q-1, inversion negates.
// Running the real generic `batch_inverse_or_zero` on this type and asking z3 whether some output exponent differs from
// -e_i decides the batch logic for ALL non-zero operands at once; the zero pattern is enumerated by the caller.
#[derive(Clone, Copy, Debug)]
pub enum SymLog {
    Z,       // the zero element
    E(i64),  // g^const
    X(u32),  // g^(symbolic exponent r_id)
}
impl Mul for SymLog {
    type Output = Self;
    fn mul(self, o: Self) -> Self {
        use SymLog::*;
        match (self, o) {
            (Z, _) | (_, Z) => Z,
            (E(a), E(b)) => E((a + b) % m()),
            (E(0), x) | (x, E(0)) => x,
            (a, b) => {
                let ta = match a { E(c) => format!("{c}"), X(i) => format!("r{i}"), Z => unreachable!() };
                let tb = match b { E(c) => format!("{c}"), X(i) => format!("r{i}"), Z => unreachable!() };
                match fresh(format!("(+ {ta} {tb})")) { V(id) => X(id), _ => unreachable!() }
            }
        }
    }
}
impl MulAssign for SymLog {
    fn mul_assign(&mut self, o: Self) {
        *self = *self * o;
    }
}
impl Add for SymLog {
    type Output = Self;
    fn add(self, _o: Self) -> Self {
        panic!("S(log): addition is not defined in the log domain")
    }
}
impl Zero for SymLog {
    fn zero() -> Self {
        SymLog::Z
    }
    fn is_zero(&self) -> bool {
        matches!(self, SymLog::Z)
    }
}
impl One for SymLog {
    fn one() -> Self {
        SymLog::E(0)
    }
}
impl Inverse for SymLog {
    fn inverse_or_zero(self) -> Self {
        use SymLog::*;
        match self {
            Z => Z,
            E(c) => E((-c).rem_euclid(m())),
            X(i) => match fresh(format!("(- 0 r{i})")) { V(id) => X(id), _ => unreachable!() },
        }
    }
}

/// batch <len> <zero mask>: script for "some output of batch_inverse_or_zero is not the inverse (resp. zero)"
pub fn emit_batch(len: usize, zero_mask: usize) -> String {
    reset(12288); // exponents live modulo q - 1
    let mut out = String::from("(set-logic QF_LIA)\n");
    let mut input = vec![];
    for i in 0..len {
        if (zero_mask >> i) & 1 == 1 {
            input.push(SymLog::Z);
        } else {
            out += &format!("(declare-const e{i} Int)(assert (<= 0 e{i}))(assert (< e{i} 12288))\n");
            match fresh(format!("e{i}")) { V(id) => input.push(SymLog::X(id)), _ => unreachable!() }
        }
    }
    let res = SymLog::batch_inverse_or_zero(&input);
    let mut goals = String::new();
    if res.len() != len {
        goals += " true";
    }
    for i in 0..len.min(res.len()) {
        match (input[i], res[i]) {
            (SymLog::Z, SymLog::Z) => {}
            (SymLog::Z, _) | (_, SymLog::Z) => goals += " true",
            (SymLog::X(a), r) => {
                // a * r must be the identity: exponents sum to 0 mod q-1
                let tr = match r { SymLog::E(c) => format!("{c}"), SymLog::X(k) => format!("r{k}"), SymLog::Z => unreachable!() };
                goals += &format!(" (not (or (= (+ r{a} {tr}) 0) (= (+ r{a} {tr}) 12288)))");
            }
            _ => {}
        }
    }
    flush(&mut out);
    if goals.trim().is_empty() {
        out += "(assert false)\n";
    } else {
        out += &format!("(assert (or{goals}))\n");
    }
    out
}

// Crate-root verification hook (cfg(kani) / cfg(aszepieniec_falcon_rust_verif) only).
//  * `verif_call`: the native replay / differential dispatcher used by /verif/replay (engine R).
//  * `symfield`: engine S (the crate's generic butterflies run on symbolic terms).
#![allow(dead_code, unused_imports)]

#[cfg(not(kani))]
#[path = "/verif/hooks/replay_dispatch.rs"]
mod replay_dispatch;
#[cfg(not(kani))]
pub use replay_dispatch::verif_call;

#[cfg(not(kani))]
#[path = "/verif/hooks/symfield.rs"]
pub mod symfield;

// Engine K harnesses for C12 (arithmetic modulo q). Compiled into the crate as a private
// child of `falcon_field` (so `Felt.0` is visible) only under cfg(kani) /
// cfg(aszepieniec_falcon_rust_verif). Oracles are plain 64-bit integer arithmetic with
// rem_euclid(12289), written here, not imported from the crate.
#![allow(dead_code, unused_imports)]
use super::Felt;
use crate::inverse::Inverse;

pub(crate) const QREF: i64 = 12289;

/// raw representative (no narrowing cast) — what "canonical" is checked on
pub(crate) fn raw(f: Felt) -> u32 {
    f.0
}
pub(crate) fn from_raw_canonical(v: u32) -> Felt {
    assert!(v < 12289);
    Felt(v)
}

#[cfg(kani)]
mod harnesses {
    use super::*;
    use core::ops::{AddAssign, MulAssign, SubAssign};

    fn any_felt() -> Felt {
        let v: u32 = kani::any();
        kani::assume(v < 12289);
        Felt(v)
    }

    #[kani::proof]
    fn c12_add() {
        let (a, b) = (any_felt(), any_felt());
        let r = a + b;
        assert!(r.0 as i64 == (a.0 as i64 + b.0 as i64).rem_euclid(QREF));
        let mut c = a;
        c.add_assign(b);
        assert!(c.0 == r.0);
        kani::cover!(a.0 + b.0 >= 12289, "wrap reachable");
        kani::cover!(a.0 + b.0 < 12289, "no-wrap reachable");
    }

    #[kani::proof]
    fn c12_sub_neg() {
        let (a, b) = (any_felt(), any_felt());
        let r = a - b;
        assert!(r.0 as i64 == (a.0 as i64 - b.0 as i64).rem_euclid(QREF));
        let mut c = a;
        c.sub_assign(b);
        assert!(c.0 == r.0);
        let n = -a;
        assert!(n.0 as i64 == (-(a.0 as i64)).rem_euclid(QREF));
        kani::cover!(a.0 < b.0, "borrow reachable");
        kani::cover!(a.0 == 0, "neg zero reachable");
    }

    #[kani::proof]
    fn c12_mul() {
        let (a, b) = (any_felt(), any_felt());
        let r = a * b;
        assert!(r.0 as i64 == (a.0 as i64 * b.0 as i64).rem_euclid(QREF));
        let m = a.multiply(b);
        assert!(m.0 == r.0);
        let mut c = a;
        c.mul_assign(b);
        assert!(c.0 == r.0);
        kani::cover!(a.0 == 12288 && b.0 == 12288, "max product reachable");
    }

    #[kani::proof]
    fn c12_new_all_i16() {
        let v: i16 = kani::any();
        kani::cover!(v == i16::MIN, "i16::MIN reachable");
        kani::cover!(v == -12289, "-q reachable");
        let f = Felt::new(v);
        assert!(f.0 as i64 == (v as i64).rem_euclid(QREF));
        assert!(f.value() as i64 == (v as i64).rem_euclid(QREF));
    }

    #[kani::proof]
    fn c12_balanced_value() {
        let a = any_felt();
        let b = a.balanced_value() as i64;
        assert!(b >= -6144 && b <= 6144);
        assert!(b.rem_euclid(QREF) == a.0 as i64);
        assert!(a.value() as i64 == a.0 as i64);
        kani::cover!(a.0 == 6144);
        kani::cover!(a.0 == 6145);
    }

    #[kani::proof]
    fn c12_from_usize_small() {
        // From<usize> narrows through i16: exact for every value that fits in i16
        let v: usize = kani::any();
        kani::assume(v <= i16::MAX as usize);
        let f = Felt::from(v);
        assert!(f.0 as i64 == (v as i64).rem_euclid(QREF));
    }

    fn inverse_slice(k: u32) {
        let a = any_felt();
        kani::assume(a.0 >> 10 == k);
        let i = a.inverse_or_zero();
        assert!(i.0 < 12289);
        if a.0 == 0 {
            assert!(i.0 == 0);
        } else {
            assert!((a.0 as u64 * i.0 as u64) % 12289 == 1);
        }
        kani::cover!(a.0 == (k << 10));
    }
    // unwind bound: the shipped inversion is a loop-free addition chain; a Euclid-style rewrite needs at most 21 steps for q = 12289
    macro_rules! inv_slices { ($($n:ident $k:expr),*) => { $( #[kani::proof] #[kani::unwind(24)] fn $n() { inverse_slice($k); } )* } }
    inv_slices!(c12_inv_s00 0, c12_inv_s01 1, c12_inv_s02 2, c12_inv_s03 3, c12_inv_s04 4, c12_inv_s05 5,
                c12_inv_s06 6, c12_inv_s07 7, c12_inv_s08 8, c12_inv_s09 9, c12_inv_s10 10, c12_inv_s11 11,
                c12_inv_s12 12);

}

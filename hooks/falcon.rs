#![allow(dead_code, unused_imports)]
#[cfg(not(kani))]
pub(crate) fn dispatch(_a: &[String]) -> Option<String> {
    None
}

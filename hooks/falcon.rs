// falcon.rs hook: native replay entry points for the key / signature codecs and verify (engine R).
#![allow(dead_code, unused_imports)]
use super::*;

#[cfg(not(kani))]
fn hexd(s: &str) -> Vec<u8> {
    if s == "-" {
        return vec![];
    }
    hex::decode(s).expect("hex")
}

#[cfg(not(kani))]
fn parse_n<const N: usize>(what: &str, bytes: &[u8]) -> String {
    fn show<T>(r: Result<T, FalconDeserializationError>, f: impl Fn(&T) -> Vec<u8>) -> String {
        match r {
            Ok(x) => format!("Ok {}", hex::encode(f(&x))),
            Err(e) => format!("Err {:?}", e),
        }
    }
    match what {
        "PublicKey" => show(PublicKey::<N>::from_bytes(bytes), |x| x.to_bytes()),
        "SecretKey" => show(SecretKey::<N>::from_bytes(bytes), |x| x.to_bytes()),
        "Signature" => show(Signature::<N>::from_bytes(bytes), |x| x.to_bytes()),
        _ => "UNKNOWN-TYPE".to_string(),
    }
}

#[cfg(not(kani))]
fn verify_n<const N: usize>(msg: &[u8], sig: &[u8], pk: &[u8]) -> String {
    let sig = match Signature::<N>::from_bytes(sig) {
        Ok(s) => s,
        Err(e) => return format!("SigErr {:?}", e),
    };
    let pk = match PublicKey::<N>::from_bytes(pk) {
        Ok(p) => p,
        Err(e) => return format!("PkErr {:?}", e),
    };
    format!("{}", verify::<N>(msg, &sig, &pk))
}

#[cfg(not(kani))]
pub(crate) fn dispatch(a: &[String]) -> Option<String> {
    match a[0].as_str() {
        // parse <type> <N> <hex>  ->  "Ok <re-encoded hex>" | "Err <variant>"
        "parse" => {
            let b = hexd(&a[3]);
            Some(match a[2].as_str() {
                "512" => parse_n::<512>(&a[1], &b),
                "1024" => parse_n::<1024>(&a[1], &b),
                _ => "BAD-N".to_string(),
            })
        }
        // verify <N> <msg hex> <sig hex> <pk hex>  ->  true | false | SigErr.. | PkErr..
        "verify" => {
            let (m, s, p) = (hexd(&a[2]), hexd(&a[3]), hexd(&a[4]));
            Some(match a[1].as_str() {
                "512" => verify_n::<512>(&m, &s, &p),
                "1024" => verify_n::<1024>(&m, &s, &p),
                _ => "BAD-N".to_string(),
            })
        }
        // params <512|1024>: the parameter set as the library defines it
        "params" => {
            let v = if a[1] == "512" { FalconVariant::Falcon512 } else { FalconVariant::Falcon1024 };
            let p = v.parameters();
            Some(format!("{} {:e} {:e} {} {}", p.n, p.sigma, p.sigmin, p.sig_bound, p.sig_bytelen))
        }
        // field_roundtrip <width> <int>: serialize then deserialize one secret-key field
        "field_decode" => {
            let bits: Vec<bool> = a[1].chars().map(|c| c == '1').collect();
            let bv: BitVec = bits.into_iter().collect();
            Some(match SecretKey::<512>::deserialize_field_element(&bv) {
                Ok(f) => format!("Ok {}", f.value()),
                Err(e) => format!("Err {:?}", e),
            })
        }
        _ => None,
    }
}

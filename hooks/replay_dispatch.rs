// Engine R: native replay dispatcher. Every counterexample a solver produces is pushed
// through the real code here (dev and release profiles) before it is reported.
#![allow(dead_code, unused_imports)]
use crate::falcon_field::Felt;
use crate::inverse::Inverse;
use std::panic::{catch_unwind, AssertUnwindSafe};

fn hex_decode(s: &str) -> Vec<u8> {
    if s == "-" {
        return vec![];
    }
    hex::decode(s).expect("hex")
}
fn ints<T: std::str::FromStr>(s: &str) -> Vec<T>
where
    T::Err: std::fmt::Debug,
{
    if s == "-" || s.is_empty() {
        return vec![];
    }
    s.split(',').map(|x| x.parse::<T>().unwrap()).collect()
}
fn join<T: ToString>(v: &[T]) -> String {
    v.iter().map(|x| x.to_string()).collect::<Vec<_>>().join(",")
}

fn dispatch(a: &[String]) -> String {
    let felt = |s: &str| crate::falcon_field::verif_hook::from_raw_canonical(s.parse::<u32>().unwrap());
    let raw = |f: Felt| crate::falcon_field::verif_hook::raw(f).to_string();
    match a[0].as_str() {
        "felt_new" => raw(Felt::new(a[1].parse::<i16>().unwrap())),
        "felt_add" => raw(felt(&a[1]) + felt(&a[2])),
        "felt_sub" => raw(felt(&a[1]) - felt(&a[2])),
        "felt_mul" => raw(felt(&a[1]) * felt(&a[2])),
        "felt_multiply" => raw(felt(&a[1]).multiply(felt(&a[2]))),
        "felt_mul_assign" => {
            let mut c = felt(&a[1]);
            c *= felt(&a[2]);
            raw(c)
        }
        "felt_neg" => raw(-felt(&a[1])),
        "felt_inv" => raw(felt(&a[1]).inverse_or_zero()),
        "felt_balanced" => felt(&a[1]).balanced_value().to_string(),
        "felt_from_usize" => raw(Felt::from(a[1].parse::<usize>().unwrap())),
        "felt_batch_inv" => {
            let v: Vec<Felt> = ints::<u32>(&a[1]).into_iter().map(|x| felt(&x.to_string())).collect();
            let r = Felt::batch_inverse_or_zero(&v);
            join(&r.iter().map(|f| crate::falcon_field::verif_hook::raw(*f)).collect::<Vec<_>>())
        }
        "decompress" => {
            let n: usize = a[1].parse().unwrap();
            match crate::encoding::decompress(&hex_decode(&a[2]), n) {
                Some(v) => format!("Some {}", join(&v)),
                None => "None".to_string(),
            }
        }
        "hash_to_point" => {
            let n: usize = a[1].parse().unwrap();
            let p = crate::polynomial::hash_to_point(&hex_decode(&a[2]), n);
            join(&p.coefficients.iter().map(|f| crate::falcon_field::verif_hook::raw(*f)).collect::<Vec<_>>())
        }
        "compress" => {
            let l: usize = a[1].parse().unwrap();
            match crate::encoding::compress(&ints::<i16>(&a[2]), l) {
                Some(v) => format!("Some {}", if v.is_empty() { "-".to_string() } else { hex::encode(v) }),
                None => "None".to_string(),
            }
        }
        other => {
            if let Some(r) = crate::falcon::verif_hook::dispatch(a) {
                return r;
            }
            if let Some(r) = crate::samplerz::verif_hook::dispatch(a) {
                return r;
            }
            if let Some(r) = crate::fast_fft::verif_hook::dispatch(a) {
                return r;
            }
            format!("UNKNOWN-COMMAND {}", other)
        }
    }
}

/// One call: argv-style request, one-line reply. A panic in the code under test is caught
/// and reported as `PANIC: <message>`.
pub fn verif_call(args: &[String]) -> String {
    let prev = std::panic::take_hook();
    std::panic::set_hook(Box::new(|_| {}));
    let r = catch_unwind(AssertUnwindSafe(|| dispatch(args)));
    std::panic::set_hook(prev);
    match r {
        Ok(s) => s,
        Err(e) => {
            let msg = if let Some(s) = e.downcast_ref::<&str>() {
                s.to_string()
            } else if let Some(s) = e.downcast_ref::<String>() {
                s.clone()
            } else {
                "?".to_string()
            };
            format!("PANIC: {}", msg)
        }
    }
}

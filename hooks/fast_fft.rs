// fast_fft.rs hook: access to the private twiddle tables / n^-1 constants for engines S and R, Kani harnesses for the
// tables (C11: Z_q tables; C13: complex table; U32 tables as supporting evidence).
#![allow(dead_code, unused_imports)]
use super::*;
use crate::inverse::Inverse;

pub(crate) fn felt_fwd(i: usize) -> Felt { FELT_BITREVERSED_POWERS_1024[i] }
pub(crate) fn felt_inv(i: usize) -> Felt { FELT_BITREVERSED_POWERS_INVERSE_1024[i] }
pub(crate) fn felt_ninv(n: usize) -> Felt {
    match n {
        1 => FELT_NINV_1, 2 => FELT_NINV_2, 4 => FELT_NINV_4, 8 => FELT_NINV_8, 16 => FELT_NINV_16, 32 => FELT_NINV_32,
        64 => FELT_NINV_64, 128 => FELT_NINV_128, 256 => FELT_NINV_256, 512 => FELT_NINV_512, 1024 => FELT_NINV_1024,
        _ => panic!("no such constant"),
    }
}
pub(crate) fn u32_ninv(n: usize) -> U32Field {
    match n {
        2 => U32_FIELD_NINV_2, 4 => U32_FIELD_NINV_4, 8 => U32_FIELD_NINV_8, 16 => U32_FIELD_NINV_16, 32 => U32_FIELD_NINV_32,
        64 => U32_FIELD_NINV_64, 128 => U32_FIELD_NINV_128, 256 => U32_FIELD_NINV_256, 512 => U32_FIELD_NINV_512, 1024 => U32_FIELD_NINV_1024,
        _ => panic!("no such constant"),
    }
}

/// (forward table, inverse table, modulus) as plain integers
#[cfg(not(kani))]
pub(crate) fn tables_i64(field: &str) -> (Vec<i64>, Vec<i64>, i64) {
    match field {
        "felt" => (
            FELT_BITREVERSED_POWERS_1024.iter().map(|f| f.value() as i64).collect(),
            FELT_BITREVERSED_POWERS_INVERSE_1024.iter().map(|f| f.value() as i64).collect(),
            12289,
        ),
        "u32" => (
            U32_FIELD_PSI_REV_1024.iter().map(|f| f.0 as i64).collect(),
            U32_FIELD_PSI_REV_INV_1024.iter().map(|f| f.0 as i64).collect(),
            1073754113,
        ),
        _ => panic!("field"),
    }
}
#[cfg(not(kani))]
pub(crate) fn ninv_i64(field: &str, n: usize) -> i64 {
    match field {
        "felt" => felt_ninv(n).value() as i64,
        "u32" => if n == 1 { 1 } else { u32_ninv(n).0 as i64 },
        _ => panic!("field"),
    }
}

#[cfg(not(kani))]
pub(crate) fn dispatch(a: &[String]) -> Option<String> {
    let ints = |s: &str| -> Vec<i64> { if s == "-" { vec![] } else { s.split(',').map(|x| x.parse().unwrap()).collect() } };
    let poly = |s: &str| Polynomial::new(ints(s).into_iter().map(|x| Felt::new(x as i16)).collect::<Vec<_>>());
    let show = |p: &Polynomial<Felt>| p.coefficients.iter().map(|f| f.value().to_string()).collect::<Vec<_>>().join(",");
    match a[0].as_str() {
        "ntt_roundtrip" => Some(show(&poly(&a[1]).fft().ifft())),
        "ntt_fwd" => Some(show(&poly(&a[1]).fft())),
        "ntt_inv" => Some(show(&poly(&a[1]).ifft())),
        "ntt_mul" => Some(show(&poly(&a[1]).fft().hadamard_mul(&poly(&a[2]).fft()).ifft())),
        "ntt_split_merge" => {
            let p = poly(&a[1]);
            let (x, y) = p.split_fft();
            Some(show(&Polynomial::<Felt>::merge_fft(&x, &y)))
        }
        "felt_table" => {
            let i: usize = a[2].parse().unwrap();
            Some(match a[1].as_str() {
                "fwd" => felt_fwd(i).value().to_string(),
                "inv" => felt_inv(i).value().to_string(),
                "ninv" => felt_ninv(i).value().to_string(),
                _ => "?".to_string(),
            })
        }
        // complex_ops <n>: max errors of round trip, product (vs schoolbook negacyclic) and merge(split(.)) on fixed vectors
        "complex_ops" => {
            let n: usize = a[1].parse().unwrap();
            // optional: `rel <k>` = inputs scaled by 2^-k and errors reported relative to the operand norms (the property's bound is 2^-30 relative)
            let relative = a.len() > 3 && a[2] == "rel";
            let scale = if relative { (2.0f64).powi(-(a[3].parse::<i32>().unwrap())) } else { 1.0 };
            let av: Vec<f64> = (0..n).map(|i| (((i * 37 + 11) % 101) as f64 - 50.0) * scale).collect();
            let bv: Vec<f64> = (0..n).map(|i| (((i * 53 + 7) % 23) as f64 - 11.0) * scale).collect();
            let pa = Polynomial::new(av.iter().map(|x| Complex64::new(*x, 0.0)).collect::<Vec<_>>());
            let pb = Polynomial::new(bv.iter().map(|x| Complex64::new(*x, 0.0)).collect::<Vec<_>>());
            let fa = pa.fft();
            let rt = fa.ifft();
            let e_rt = rt.coefficients.iter().zip(av.iter()).map(|(c, x)| (c.re - x).abs().max(c.im.abs())).fold(0.0, f64::max);
            let prod = fa.hadamard_mul(&pb.fft()).ifft();
            let mut want = vec![0.0f64; n];
            for i in 0..n { for j in 0..n { let k = i + j; if k < n { want[k] += av[i] * bv[j]; } else { want[k - n] -= av[i] * bv[j]; } } }
            let e_pr = prod.coefficients.iter().zip(want.iter()).map(|(c, x)| (c.re - x).abs().max(c.im.abs())).fold(0.0, f64::max);
            let (s0, s1) = fa.split_fft();
            let mg = Polynomial::<Complex64>::merge_fft(&s0, &s1);
            let e_sm = mg.coefficients.iter().zip(fa.coefficients.iter()).map(|(c, x)| (c - x).norm()).fold(0.0, f64::max);
            // split(fft(a)) = (fft(a_even), fft(a_odd))
            let ev = Polynomial::new(av.iter().step_by(2).map(|x| Complex64::new(*x, 0.0)).collect::<Vec<_>>()).fft();
            let od = Polynomial::new(av.iter().skip(1).step_by(2).map(|x| Complex64::new(*x, 0.0)).collect::<Vec<_>>()).fft();
            let e_sp = s0.coefficients.iter().zip(ev.coefficients.iter()).chain(s1.coefficients.iter().zip(od.coefficients.iter())).map(|(c, x)| (c - x).norm()).fold(0.0, f64::max);
            if relative {
                let na = av.iter().map(|x| x * x).sum::<f64>().sqrt().max(f64::MIN_POSITIVE);
                let nb = bv.iter().map(|x| x * x).sum::<f64>().sqrt().max(f64::MIN_POSITIVE);
                let nf = fa.coefficients.iter().map(|c| c.norm_sqr()).sum::<f64>().sqrt().max(f64::MIN_POSITIVE);
                return Some(format!("{:e},{:e},{:e},{:e}", e_rt / na, e_pr / (na * nb), e_sm / nf, e_sp / nf));
            }
            Some(format!("{:e},{:e},{:e},{:e}", e_rt, e_pr, e_sm, e_sp))
        }
        "complex_table" => {
            let i: usize = a[1].parse().unwrap();
            Some(format!("{:e},{:e}", COMPLEX_BITREVERSED_POWERS_1024[i].re, COMPLEX_BITREVERSED_POWERS_1024[i].im))
        }
        // symfield <kind> <field> <n> <j> <out path>
        "symfield" => {
            let s = crate::verif_hook::symfield::emit(&a[1], &a[2], a[3].parse().unwrap(), a[4].parse().unwrap());
            std::fs::write(&a[5], s).unwrap();
            Some("written".to_string())
        }
        "symbatch" => {
            let s = crate::verif_hook::symfield::emit_batch(a[1].parse().unwrap(), a[2].parse().unwrap());
            std::fs::write(&a[3], s).unwrap();
            Some("written".to_string())
        }
        _ => None,
    }
}

#[cfg(kani)]
mod harnesses {
    use super::*;

    fn pow_felt(base: Felt, mut e: usize) -> Felt {
        // 11-bit square and multiply on the (C12-proved) field multiply
        let mut acc = Felt::new(1);
        let mut b = base;
        let mut i = 0;
        while i < 11 {
            if e & 1 == 1 { acc = acc * b; }
            b = b * b;
            e >>= 1;
            i += 1;
        }
        acc
    }
    fn bitrev10(i: usize) -> usize {
        let mut r = 0usize;
        let mut k = 0;
        while k < 10 {
            r |= ((i >> k) & 1) << (9 - k);
            k += 1;
        }
        r
    }

    /// FWD[i] = psi^bitrev10(i) for every i, with psi := FWD[512] a primitive 2048-th root (psi^1024 = -1)
    #[kani::proof]
    #[kani::unwind(12)]
    fn c11_table_fwd() {
        let i: usize = kani::any();
        kani::assume(i < 1024);
        let psi = felt_fwd(512);
        assert!(psi.value() as i64 != 0);
        assert!(pow_felt(psi, 1024).value() == 12288);
        assert!(felt_fwd(i) == pow_felt(psi, bitrev10(i)));
        assert!((felt_fwd(i).value() as u32) < 12289);
        kani::cover!(i == 1023);
        kani::cover!(i == 0);
    }

    /// INV[i] * FWD[i] = 1 for every i
    #[kani::proof]
    fn c11_table_inv() {
        let i: usize = kani::any();
        kani::assume(i < 1024);
        assert!((felt_inv(i) * felt_fwd(i)).value() == 1);
        assert!((felt_inv(i).value() as u32) < 12289);
        kani::cover!(i == 1023);
    }

    /// n * NINV_n = 1 for the eleven constants
    #[kani::proof]
    fn c11_ninv() {
        let k: usize = kani::any();
        kani::assume(k <= 10);
        let n = 1usize << k;
        assert!(((n as u64) * (felt_ninv(n).value() as u64)) % 12289 == 1);
        assert!((felt_ninv(n).value() as u32) < 12289);
        kani::cover!(k == 10);
        kani::cover!(k == 0);
    }

    /// complex table: T[0] = 1, T[1] = i, T[2j]^2 = T[j], T[2j+1] = i * T[2j], first-quadrant rule — pins every entry
    /// to exp(i*pi*bitrev(j)/1024) within about 1e-14 without sin/cos in the solver
    #[kani::proof]
    fn c13_complex_table() {
        let t = &COMPLEX_BITREVERSED_POWERS_1024;
        assert!(t[0].re == 1.0 && t[0].im == 0.0);
        assert!(t[1].re.abs() <= 1e-15 && t[1].im == 1.0);
        let j: usize = kani::any();
        kani::assume(j >= 1 && j < 512);
        let a = t[2 * j];
        let b = t[2 * j + 1];
        let p = t[j];
        let re = a.re * a.re - a.im * a.im;
        let im = 2.0 * a.re * a.im;
        let tol = 1e-15;
        assert!((re - p.re).abs() <= tol && (im - p.im).abs() <= tol);
        assert!(a.re > 0.0 && a.im >= 0.0);
        assert!((b.re + a.im).abs() <= tol && (b.im - a.re).abs() <= tol);
        kani::cover!(j == 511);
        kani::cover!(j == 1);
    }
}

// samplerz.rs hook: Kani harnesses for the integer building blocks of the sampler (C09) and native replay entry points.
#![allow(dead_code, unused_imports)]
use super::*;

#[cfg(not(kani))]
struct BufRng {
    buf: Vec<u8>,
    pos: usize,
    pub exhausted: bool,
}
#[cfg(not(kani))]
impl rand::RngCore for BufRng {
    // one byte of the stream per draw, like the byte-stream generator of the crate's own known-answer tests: rand samples
    // a u8 (and each element of a [u8; N]) from next_u32
    fn next_u32(&mut self) -> u32 {
        let mut b = [0u8; 1];
        self.fill_bytes(&mut b);
        b[0] as u32
    }
    fn next_u64(&mut self) -> u64 {
        let mut b = [0u8; 1];
        self.fill_bytes(&mut b);
        b[0] as u64
    }
    fn fill_bytes(&mut self, dest: &mut [u8]) {
        for d in dest.iter_mut() {
            if self.pos < self.buf.len() {
                *d = self.buf[self.pos];
                self.pos += 1;
            } else {
                self.exhausted = true;
                *d = 0;
            }
        }
    }
    fn try_fill_bytes(&mut self, dest: &mut [u8]) -> Result<(), rand::Error> {
        self.fill_bytes(dest);
        Ok(())
    }
}

#[cfg(not(kani))]
pub(crate) fn dispatch(a: &[String]) -> Option<String> {
    let f = |s: &str| f64::from_bits(u64::from_str_radix(s, 16).unwrap());
    let bytes = |s: &str| -> Vec<u8> { if s == "-" { vec![] } else { hex::decode(s).unwrap() } };
    match a[0].as_str() {
        // floats are passed as 16 hex digits of their IEEE bits
        "base_sampler" => {
            let b: [u8; 9] = bytes(&a[1]).try_into().unwrap();
            Some(base_sampler(b).to_string())
        }
        "approx_exp" => Some(approx_exp(f(&a[1]), f(&a[2])).to_string()),
        "ber_exp" => {
            let b: [u8; 7] = bytes(&a[3]).try_into().unwrap();
            Some(ber_exp(f(&a[1]), f(&a[2]), b).to_string())
        }
        "sampler_z" => {
            let mut rng = BufRng { buf: bytes(&a[4]), pos: 0, exhausted: false };
            let z = sampler_z(f(&a[1]), f(&a[2]), f(&a[3]), &mut rng);
            Some(format!("{} consumed={} exhausted={}", z, rng.pos, rng.exhausted))
        }
        _ => None,
    }
}

#[cfg(kani)]
mod harnesses {
    use super::*;

    // RCDT of the specification (Table 3.1), written out here - not taken from the crate
    const RCDT_SPEC: [u128; 18] = [
        3024686241123004913666, 1564742784480091954050, 636254429462080897535, 199560484645026482916,
        47667343854657281903, 8595902006365044063, 1163297957344668388, 117656387352093658,
        8867391802663976, 496969357462633, 20680885154299, 638331848991, 14602316184, 247426747,
        3104126, 28824, 198, 1,
    ];

    /// base_sampler(u) = #{i : u < RCDT[i]} for all 2^72 inputs
    #[kani::proof]
    #[kani::unwind(20)]
    fn c09_base_sampler() {
        let bytes: [u8; 9] = kani::any();
        let mut u: u128 = 0;
        let mut i = 0;
        while i < 9 {
            u = (u << 8) | bytes[i] as u128;
            i += 1;
        }
        let mut z0 = 0i16;
        let mut k = 0;
        while k < 18 {
            if u < RCDT_SPEC[k] {
                z0 += 1;
            }
            k += 1;
        }
        kani::cover!(u == 0, "all 18 reachable");
        kani::cover!(u >= RCDT_SPEC[0], "0 reachable");
        let r = base_sampler(bytes);
        assert!(r == z0);
        assert!(r >= 0 && r <= 18);
    }

    /// ber_exp is total on its documented domain: x >= 0 (x < 2^10 here), ccs in [1/2, 1], every 7-byte string
    #[kani::proof]
    #[kani::unwind(14)]
    fn c09_ber_exp_total() {
        let x: f64 = kani::any();
        let ccs: f64 = kani::any();
        kani::assume(x >= 0.0 && x < 1024.0);
        kani::assume(ccs >= 0.5 && ccs <= 1.0);
        let bytes: [u8; 7] = kani::any();
        kani::cover!(x > 50.0, "large x reachable");
        let _ = ber_exp(x, ccs, bytes);
    }
}

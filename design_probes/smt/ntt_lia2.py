import sys, time
from z3 import *
exec(open('ntt_lia.py').read().split("def md(x)")[0])
cnt=[0]
S=Solver()
def md(x):
    cnt[0]+=1
    r=Int('r%d'%cnt[0]); k=Int('k%d'%cnt[0])
    S.add(r==x-Q*k, r>=0, r<Q)
    return r
src=open('ntt_lia.py').read()
body=src.split("def md(x): return x % Q")[1].split("n=int(sys.argv[1])")[0]
exec(body)
n=int(sys.argv[1])
psi,psii=tables(n)
ninv=pow(n,Q-2,Q)
xs=[Int('x%d'%i) for i in range(n)]
for x in xs: S.add(x>=0,x<Q)
r=ifft(fft(xs,psi),psii,ninv)
mode=sys.argv[2] if len(sys.argv)>2 else 'all'
t0=time.time()
if mode=='all':
    S.add(Or([r[i]!=xs[i] for i in range(n)]))
    print(n, S.check(), time.time()-t0)
else:
    for i in range(n):
        S.push(); S.add(r[i]!=xs[i]); res=S.check(); S.pop()
        if str(res)!='unsat': print('idx',i,res)
    print(n,'each done',time.time()-t0)
if len(sys.argv)>3:
    open(sys.argv[3],'w').write(S.to_smt2())

import sys, time
from z3 import *
exec(open('ntt_lia.py').read().split("def md(x)")[0])
cnt=[0]
S=Solver()
def md(x):
    if isinstance(x,int): return x%Q
    x=simplify(x)
    if is_int_value(x): return x.as_long()%Q
    cnt[0]+=1
    r=Int('r%d'%cnt[0]); k=Int('k%d'%cnt[0])
    S.add(r==x-Q*k, r>=0, r<Q)
    return r
src=open('ntt_lia.py').read()
body=src.split("def md(x): return x % Q")[1].split("n=int(sys.argv[1])")[0]
exec(body)
n=int(sys.argv[1]); mode=sys.argv[2]
psi,psii=tables(n)
ninv=pow(n,Q-2,Q)
xs=[Int('x%d'%i) for i in range(n)]
for x in xs: S.add(x>=0,x<Q)
if mode=='full':
    ys=[Int('y%d'%i) for i in range(n)]
    for y in ys: S.add(y>=0,y<Q)
else:
    j=int(mode); ys=[1 if i==j else 0 for i in range(n)]
fa=fft(xs,psi); fb=fft(ys,psi) if mode=='full' else fft(ys,psi)
prod=[md(fa[i]*fb[i]) for i in range(n)]
r=ifft(prod,psii,ninv)
# schoolbook
ref=[]
for k in range(n):
    acc=0
    for i in range(n):
        jj=(k-i)%n
        t=xs[i]*ys[jj]
        acc = acc + t if i+jj<n else acc - t
    ref.append(md(acc))
S.add(Or([r[i]!=ref[i] for i in range(n)]))
t0=time.time()
print(n, mode, S.check(), time.time()-t0)

import sys, time
from z3 import *
Q=12289
def bitrev(i,n):
    b=n.bit_length()-1
    return int(format(i,'0%db'%b)[::-1],2) if b>0 else 0
def tables(n):
    # psi: primitive 2n-th root
    g=None
    for c in range(2,Q):
        if pow(c,n,Q)==Q-1: g=c;break
    psi=[pow(g,bitrev(i,n),Q) for i in range(n)]
    ginv=pow(g,Q-2,Q)
    psii=[pow(ginv,bitrev(i,n),Q) for i in range(n)]
    return psi,psii
def md(x): return x % Q
def fft(a,psi):
    n=len(a);t=n;m=1
    a=list(a)
    while m<n:
        t>>=1
        for i in range(m):
            j1=2*i*t;s=psi[m+i]
            for j in range(j1,j1+t):
                u=a[j];v=md(a[j+t]*s)
                a[j]=md(u+v);a[j+t]=md(u-v+Q)
        m<<=1
    return a
def ifft(a,psii,ninv):
    n=len(a);t=1;m=n;a=list(a)
    while m>1:
        h=m//2;j1=0
        for i in range(h):
            s=psii[h+i]
            for j in range(j1,j1+t):
                u=a[j];v=a[j+t]
                a[j]=md(u+v);a[j+t]=md((u-v+Q)*s)
            j1+=2*t
        t<<=1;m>>=1
    return [md(x*ninv) for x in a]
n=int(sys.argv[1])
psi,psii=tables(n)
ninv=pow(n,Q-2,Q)
xs=[Int('x%d'%i) for i in range(n)]
s=Solver()
for x in xs: s.add(x>=0,x<Q)
r=ifft(fft(xs,psi),psii,ninv)
s.add(Or([r[i]!=xs[i] for i in range(n)]))
t0=time.time()
print(n, s.check(), time.time()-t0)

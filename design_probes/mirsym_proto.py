#!/usr/bin/env python3-vt
"""Throw-away prototype of mirsym: path-wise symbolic execution of rustc MIR (decompress only)."""
import re, sys, time
from z3 import *

WIDTH = {'u8':8,'i8':8,'u16':16,'i16':16,'u32':32,'i32':32,'u64':64,'i64':64,'usize':64,'isize':64,'u128':128,'i128':128}
def signed(ty): return ty[0]=='i'

class V:  # integer / bool value
    __slots__=('t','ty')
    def __init__(s,t,ty): s.t=t; s.ty=ty
    def __repr__(s): return f"V({s.t}:{s.ty})"
def mkint(v,ty): return V(BitVecVal(v,WIDTH[ty]),ty)
def mkbool(b): return V(BoolVal(b),'bool')
def conc(v):
    t=simplify(v.t)
    if is_bv_value(t): return t.as_signed_long() if signed(v.ty) else t.as_long()
    if is_true(t): return True
    if is_false(t): return False
    return None

class Ref:
    def __init__(s,name=None,val=None): s.name=name; s.val=val
    def get(s,L): return L[s.name] if s.name is not None else s.val
    def set(s,L,v):
        assert s.name is not None; L[s.name]=v
class Agg:  # tuple/struct/enum
    def __init__(s,kind,fields,variant=None): s.kind=kind; s.f=fields; s.variant=variant
    def __repr__(s): return f"Agg({s.kind},{s.variant},{s.f})"
class RangeIt:
    def __init__(s,a,b): s.a=a; s.b=b
class SliceIt:
    def __init__(s,lst,pos=0): s.lst=lst; s.pos=pos
class PanicFound(Exception): pass

def parse_fn(text):
    lines=text.split('\n')
    types={}
    m=re.match(r'fn (\S+?)\((.*)\) -> (.*) \{',lines[0])
    for a in re.finditer(r'(_\d+): ([^,]+(?:<[^>]*>)?)',m.group(2)): types[a.group(1)]=a.group(2).strip()
    blocks={}; cur=None
    for ln in lines[1:]:
        s=ln.strip()
        mm=re.match(r'let (?:mut )?(_\d+): (.*);',s)
        if mm: types[mm.group(1)]=mm.group(2); continue
        mm=re.match(r'(bb\d+)( \(cleanup\))?: \{',s)
        if mm: cur=mm.group(1); blocks[cur]=[]; continue
        if cur and s=='}': cur=None; continue
        if cur and s and not s.startswith(('StorageLive','StorageDead','scope','debug')): blocks[cur].append(s)
    return types,blocks

class Exec:
    def __init__(s,types,blocks,promoted):
        s.types=types; s.blocks=blocks; s.promoted=promoted
        s.solver=Solver(); s.canon=None; s.nq=0; s.paths=0; s.results=[]; s.panics=[]
    # ---- places
    def read_place(s,L,p):
        p=p.strip()
        m=re.fullmatch(r'_\d+',p)
        if m: return L[p]
        m=re.fullmatch(r'\((.+)\.(\d+): [^()]*\)',p)
        if m:
            base=s.read_place(L,m.group(1)); return base.f[int(m.group(2))]
        m=re.fullmatch(r'\((.+) as (\w+)\)',p)
        if m: return s.read_place(L,m.group(1))
        m=re.fullmatch(r'\(\*(_\d+)\)\[(_\d+)\]',p)
        if m:
            lst=L[m.group(1)].get(L); i=conc(L[m.group(2)]); assert i is not None
            return lst[i]
        m=re.fullmatch(r'\(\*(.+)\)',p)
        if m: return s.read_place(L,m.group(1)).get(L)
        raise NotImplementedError('place '+p)
    def write_place(s,L,p,v):
        p=p.strip()
        if re.fullmatch(r'_\d+',p): L[p]=v; return
        m=re.fullmatch(r'\(\*(_\d+)\)',p)
        if m: L[m.group(1)].set(L,v); return
        raise NotImplementedError('wplace '+p)
    def operand(s,L,o):
        o=o.strip()
        m=re.fullmatch(r'const (-?\d+)_(\w+)',o)
        if m: return mkint(int(m.group(1)),m.group(2))
        if o=='const false': return mkbool(False)
        if o=='const true': return mkbool(True)
        m=re.fullmatch(r'const .*promoted\[(\d+)\]',o)
        if m:
            return Ref(val=s.promoted[int(m.group(1))])
        m=re.fullmatch(r'(?:no_retag )?(?:copy|move) (.+)',o)
        if m: return s.read_place(L,m.group(1))
        raise NotImplementedError('operand '+o)
    def split_args(s,a):
        out=[];d=0;cur=''
        for ch in a:
            if ch in '([{<': d+=1
            if ch in ')]}>': d-=1
            if ch==',' and d==0: out.append(cur); cur=''
            else: cur+=ch
        if cur.strip(): out.append(cur)
        return out
    def binop(s,op,a,b):
        ty=a.ty; sg=signed(ty) if ty!='bool' else False
        if op in('Shl','Shr'):
            w=WIDTH[ty]; bt=b.t
            bw=bt.size()
            bt = Extract(w-1,0,bt) if bw>w else (ZeroExt(w-bw,bt) if bw<w else bt)
            if op=='Shl': return V(a.t<<bt,ty)
            return V((a.t>>bt) if sg else LShR(a.t,bt),ty)
        if op=='BitOr': return V(Or(a.t,b.t),ty) if ty=='bool' else V(a.t|b.t,ty)
        if op=='BitAnd': return V(And(a.t,b.t),ty) if ty=='bool' else V(a.t&b.t,ty)
        if op=='Eq': return V(a.t==b.t,'bool')
        if op=='Ne': return V(a.t!=b.t,'bool')
        if op=='Lt': return V(a.t<b.t if sg else ULT(a.t,b.t),'bool')
        if op=='Le': return V(a.t<=b.t if sg else ULE(a.t,b.t),'bool')
        if op=='Gt': return V(a.t>b.t if sg else UGT(a.t,b.t),'bool')
        if op=='Ge': return V(a.t>=b.t if sg else UGE(a.t,b.t),'bool')
        raise NotImplementedError(op)
    def ovf(s,op,a,b):
        ty=a.ty; w=WIDTH[ty]; sg=signed(ty)
        ext=(lambda t:SignExt(w,t)) if sg else (lambda t:ZeroExt(w,t))
        A,B=ext(a.t),ext(b.t)
        full={'Add':A+B,'Sub':A-B,'Mul':A*B}[op]
        res=Extract(w-1,0,full)
        o = (ext(res)!=full)
        return Agg('tuple',[V(res,ty),V(o,'bool')])
    def rvalue(s,L,r,dst):
        r=r.strip()
        m=re.fullmatch(r'(\w+)WithOverflow\((.*)\)',r)
        if m:
            a,b=[s.operand(L,x) for x in s.split_args(m.group(2))]; return s.ovf(m.group(1),a,b)
        m=re.fullmatch(r'(Lt|Le|Gt|Ge|Eq|Ne|BitOr|BitAnd|Shl|Shr)\((.*)\)',r)
        if m:
            a,b=[s.operand(L,x) for x in s.split_args(m.group(2))]; return s.binop(m.group(1),a,b)
        m=re.fullmatch(r'Not\((.*)\)',r)
        if m:
            a=s.operand(L,m.group(1)); return V(Not(a.t),'bool') if a.ty=='bool' else V(~a.t,a.ty)
        m=re.fullmatch(r'(.+) as (\w+) \(IntToInt\)',r)
        if m:
            a=s.operand(L,m.group(1)); ty=m.group(2)
            if a.ty=='bool': return V(If(a.t,BitVecVal(1,WIDTH[ty]),BitVecVal(0,WIDTH[ty])),ty)
            w0=WIDTH[a.ty]; w1=WIDTH[ty]
            t=a.t
            if w1<w0: t=Extract(w1-1,0,t)
            elif w1>w0: t=SignExt(w1-w0,t) if signed(a.ty) else ZeroExt(w1-w0,t)
            return V(t,ty)
        m=re.fullmatch(r'&(?:mut )?(_\d+)',r)
        if m:
            return Ref(name=m.group(1))
        m=re.fullmatch(r'PtrMetadata\((.*)\)',r)
        if m: return mkint(len(s.operand(L,m.group(1)).get(L)),'usize')
        m=re.fullmatch(r'discriminant\((.*)\)',r)
        if m:
            a=s.read_place(L,m.group(1)); return mkint({'None':0,'Some':1}[a.variant],'isize')
        m=re.fullmatch(r'std::ops::Range::<usize> \{ start: (.*), end: (.*) \}',r)
        if m: return RangeIt(s.operand(L,m.group(1)),s.operand(L,m.group(2)))
        if re.fullmatch(r'Option::<.*>::None',r): return Agg('enum',[],'None')
        m=re.fullmatch(r'Option::<.*>::Some\((.*)\)',r)
        if m: return Agg('enum',[s.operand(L,m.group(1))],'Some')
        return s.operand(L,r)
    # ---- calls
    def call(s,L,f,args,pc):
        A=[s.operand(L,x) for x in s.split_args(args)]
        if f=='BitVec::from_bytes':
            bits=[]
            for byte in A[0].get(L):
                for k in range(7,-1,-1): bits.append(V(Extract(k,k,byte.t)==1,'bool'))
            return ('bitvec',bits)
        if f.startswith('Vec::<i16>::with_capacity'): return ('vec',[])
        if f=='BitVec::len': return mkint(len(A[0].get(L)[1]),'usize')
        if f=='<BitVec as Index<usize>>::index':
            bv=A[0].get(L)[1]; i=conc(A[1]); assert i is not None
            if i>=len(bv): raise PanicFound('BitVec index out of bounds %d>=%d'%(i,len(bv)))
            return Ref(val=bv[i])
        if f=='BitVec::get':
            bv=A[0].get(L)[1]; i=conc(A[1])
            return Agg('enum',[bv[i]],'Some') if i<len(bv) else Agg('enum',[],'None')
        if f=='<usize as num::Integer>::div_mod_floor':
            a=conc(A[0].get(L)); b=conc(A[1].get(L)); return Agg('tuple',[mkint(a//b,'usize'),mkint(a%b,'usize')])
        if f.endswith('as IntoIterator>::into_iter'): return A[0]
        if f=='<std::ops::Range<usize> as Iterator>::next':
            it=A[0].get(L); a=conc(it.a); b=conc(it.b)
            if a<b: it.a=mkint(a+1,'usize'); return Agg('enum',[mkint(a,'usize')],'Some')
            return Agg('enum',[],'None')
        if f.startswith('Vec::<i16>::push'):
            A[0].get(L)[1].append(A[1]); return None
        if f=='core::slice::<impl [u8]>::iter': return SliceIt(A[0].get(L))
        if f.endswith('as Iterator>::skip'):
            it=A[0]; it.pos+=conc(A[1]); return it
        if f.startswith('<Skip<') and f.endswith('::next'):
            it=A[0].get(L)
            if it.pos<len(it.lst):
                v=it.lst[it.pos]; it.pos+=1; return Agg('enum',[Ref(val=v)],'Some')
            return Agg('enum',[],'None')
        raise NotImplementedError('call '+f)
    # ---- feasibility
    def check_now(s,c):
        """is (current solver stack) AND c satisfiable? non-destructive"""
        s.nq+=1
        s.solver.push(); s.solver.add(c); r=s.solver.check()
        m=s.solver.model() if r==sat else None
        s.solver.pop(); return r==sat,m
    def run(s,L,bb,pc,depth=0):
        npush=0
        try:
            while True:
                stmts=s.blocks[bb]
                for st in stmts[:-1]:
                    m=re.fullmatch(r'(.+?) = (.*);',st)
                    s.write_place(L,m.group(1),s.rvalue(L,m.group(2),m.group(1)))
                t=stmts[-1]
                m=re.fullmatch(r'goto -> (bb\d+);',t)
                if m: bb=m.group(1); continue
                if t=='return;': s.paths+=1; s.on_return(L['_0'],pc); return
                if t=='unreachable;': raise Exception('unreachable reached')
                m=re.fullmatch(r'drop\(.*\) -> \[return: (bb\d+).*',t)
                if m: bb=m.group(1); continue
                m=re.fullmatch(r'switchInt\((.*)\) -> \[(.*)\];',t)
                if m:
                    v=s.operand(L,m.group(1)); arms=[x.strip().split(': ') for x in m.group(2).split(',')]
                    c=conc(v)
                    if c is not None:
                        c=int(c); tgt=None
                        for k,b in arms:
                            if k!='otherwise' and int(k)==c: tgt=b
                        if tgt is None: tgt=[b for k,b in arms if k=='otherwise'][0]
                        bb=tgt; continue
                    taken=[]
                    for k,b in arms:
                        if k=='otherwise': cond=And(*[Not(x) for x in taken]) if taken else BoolVal(True)
                        else:
                            cond=(v.t==BoolVal(bool(int(k)))) if v.ty=='bool' else (v.t==BitVecVal(int(k),WIDTH[v.ty]))
                            taken.append(cond)
                        cond=simplify(cond)
                        s.solver.push(); s.solver.add(cond); s.nq+=1
                        if s.solver.check()==sat:
                            L2=s.clone(L); s.run(L2,b,pc+[cond])
                        s.solver.pop()
                    return
                m=re.fullmatch(r'assert\((!?)(.*?), "(.*?)".*\) -> \[success: (bb\d+).*',t)
                if m:
                    v=s.operand(L,m.group(2)); cond=simplify(Not(v.t) if m.group(1) else v.t)
                    if is_true(cond): bb=m.group(4); continue
                    ok,model=s.check_now(Not(cond))
                    if ok: s.panics.append((m.group(3),model,list(pc)))
                    s.solver.push(); npush+=1; s.solver.add(cond); s.nq+=1
                    if s.solver.check()!=sat: return
                    pc=pc+[cond]; bb=m.group(4); continue
                m=re.fullmatch(r'(.+?) = (.+?)\((.*)\) -> \[return: (bb\d+).*',t)
                if m:
                    try: r=s.call(L,m.group(2),m.group(3),pc)
                    except PanicFound as e:
                        _,model=s.check_now(BoolVal(True)); s.panics.append((str(e),model,list(pc))); return
                    if r is not None: s.write_place(L,m.group(1),r)
                    bb=m.group(4); continue
                raise NotImplementedError('term '+t)
        finally:
            for _ in range(npush): s.solver.pop()
    def on_return(s,ret,pc):
        s.results.append(ret.variant)
        if ret.variant=='Some' and s.canon is not None: s.canon(s,ret,pc)
    def clone(s,L):
        # deep-ish copy of mutable containers; Refs are closures over L -> rebind
        import copy
        memo={}
        L2={}
        def cp(v):
            if isinstance(v,tuple) and v and v[0] in('vec',): return (v[0],list(v[1]))
            if isinstance(v,RangeIt): return RangeIt(v.a,v.b)
            if isinstance(v,SliceIt): return SliceIt(v.lst,v.pos)
            return v
        for k,v in L.items(): L2[k]=cp(v)
        return L2

def ref_encode_bits(vals_hi):
    """vals_hi: list of (sign Bool, low 7-bit BV, high int concrete) -> list of Bool bits"""
    bits=[]
    for sg,low,h in vals_hi:
        bits.append(sg)
        for k in range(6,-1,-1): bits.append(Extract(k,k,low)==1)
        bits += [BoolVal(False)]*h + [BoolVal(True)]
    return bits
def main():
    n=int(sys.argv[1]); Lb=int(sys.argv[2]); zero_from=int(sys.argv[3]) if len(sys.argv)>3 else None; zero_to=int(sys.argv[4]) if len(sys.argv)>4 else None
    text=open('/tmp/probe/decompress.mir').read()
    types,blocks=parse_fn(text)
    promoted={0:mkint(8,'usize'),1:mkint(8,'usize'),2:mkint(8,'usize')}
    ex=Exec(types,blocks,promoted)
    xs=[]
    for i in range(Lb):
        if zero_from is not None and zero_from<=i<zero_to: xs.append(mkint(0,'u8'))
        else: xs.append(V(BitVec('x%d'%i,8),'u8'))
    allbits=[]
    for byte in xs:
        for k in range(7,-1,-1): allbits.append(Extract(k,k,byte.t)==1)
    noncanon=[]
    def canon(ex,ret,pc):
        vec=ret.f[0][1]
        # property: re-encoding of decoded values (as i16 two's complement, spec semantics) equals input bits
        enc=[]
        for v in vec:
            t=v.t  # i16
            sg=t<0
            mag=If(sg,-SignExt(16,t),SignExt(16,t))  # 32-bit magnitude
            low=Extract(6,0,mag)
            enc.append((sg,low,mag))
        # high is symbolic in general; use solver: claim exists? build constraint bitwise using concrete high from model
        ex.solver.push()
        # candidate high values must be concrete on this path: ask model
        assert ex.solver.check()==sat
        m=ex.solver.model()
        vals=[]
        for sg,low,mag in enc:
            h=m.eval(LShR(mag,7),model_completion=True).as_long()
            ex.solver.add(LShR(mag,7)==h)   # restrict to this high (then loop over others below)
            vals.append((sg,low,h))
        bits=ref_encode_bits(vals)
        if len(bits)>len(allbits): viol=BoolVal(True)
        else:
            eqs=[allbits[i]==bits[i] for i in range(len(bits))]+[Not(allbits[i]) for i in range(len(bits),len(allbits))]
            negz=[And(sg,low==0,BoolVal(h==0)) for sg,low,h in vals]
            viol=Or(Not(And(*eqs)),*negz)
        ex.solver.add(viol); ex.nq+=1
        if ex.solver.check()==sat:
            mm=ex.solver.model()
            noncanon.append(([mm.eval(x.t,model_completion=True).as_long() for x in xs],[mm.eval(v.t,model_completion=True).as_signed_long() for v in vec]))
        ex.solver.pop()
    ex.canon=canon
    L={'_1':Ref(val=xs),'_2':mkint(n,'usize')}
    t0=time.time()
    ex.run(L,'bb0',[])
    print('n',n,'L',Lb,'paths',ex.paths,'queries',ex.nq,'time %.1fs'%(time.time()-t0))
    seen=set()
    for msg,model,pc in ex.panics:
        if msg in seen: continue
        seen.add(msg)
        print('PANIC:',msg,'input=',[model.eval(x.t,model_completion=True).as_long() for x in xs])
    some=sum(1 for r in ex.results if r=='Some')
    print('Some-paths',some,'None-paths',len(ex.results)-some,'noncanonical',len(noncanon))
    for nc in noncanon[:2]: print('NONCANON input',nc[0],'decoded',nc[1])
main()

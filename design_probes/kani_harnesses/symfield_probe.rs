// Probe: run the crate's real generic butterflies on symbolic terms, emit QF_LIA.
use std::cell::RefCell;
use std::ops::{Add, Mul, MulAssign, Sub};
use num::{One, Zero};
use crate::cyclotomic_fourier::CyclotomicFourier;
use crate::inverse::Inverse;
use crate::falcon_field::Felt;

const Q: i64 = 12289;
#[derive(Clone, Copy, Debug)]
pub enum SymFelt { C(i64), V(u32) }   // constant residue or variable id
thread_local! { static SCRIPT: RefCell<(u32, Vec<String>)> = RefCell::new((0, vec![])); }
fn fresh(defn: String) -> SymFelt {
    SCRIPT.with(|s| { let mut s = s.borrow_mut(); let id = s.0; s.0 += 1;
        s.1.push(format!("(declare-const r{id} Int)(declare-const k{id} Int)(assert (= r{id} (- {defn} (* {Q} k{id}))))(assert (<= 0 r{id}))(assert (< r{id} {Q}))"));
        SymFelt::V(id) })
}
fn t(x: SymFelt) -> String { match x { SymFelt::C(c) => format!("{c}"), SymFelt::V(i) => format!("r{i}") } }
impl Add for SymFelt { type Output = Self; fn add(self, o: Self) -> Self { match (self, o) {
    (SymFelt::C(a), SymFelt::C(b)) => SymFelt::C((a + b) % Q), (SymFelt::C(0), x) | (x, SymFelt::C(0)) => x, _ => fresh(format!("(+ {} {})", t(self), t(o))) } } }
impl Sub for SymFelt { type Output = Self; fn sub(self, o: Self) -> Self { match (self, o) {
    (SymFelt::C(a), SymFelt::C(b)) => SymFelt::C((a - b).rem_euclid(Q)), (x, SymFelt::C(0)) => x, _ => fresh(format!("(- {} {})", t(self), t(o))) } } }
impl Mul for SymFelt { type Output = Self; fn mul(self, o: Self) -> Self { match (self, o) {
    (SymFelt::C(a), SymFelt::C(b)) => SymFelt::C((a * b) % Q),
    (SymFelt::C(0), _) | (_, SymFelt::C(0)) => SymFelt::C(0),
    (SymFelt::C(1), x) | (x, SymFelt::C(1)) => x,
    (SymFelt::C(_), _) | (_, SymFelt::C(_)) => fresh(format!("(* {} {})", t(self), t(o))),
    _ => panic!("nonlinear") } } }
impl MulAssign for SymFelt { fn mul_assign(&mut self, o: Self) { *self = *self * o; } }
impl Zero for SymFelt { fn zero() -> Self { SymFelt::C(0) } fn is_zero(&self) -> bool { match self { SymFelt::C(c) => *c == 0, _ => panic!("symbolic is_zero") } } }
impl One for SymFelt { fn one() -> Self { SymFelt::C(1) } }
impl Inverse for SymFelt { fn inverse_or_zero(self) -> Self { match self { SymFelt::C(c) => SymFelt::C(Felt::new(c as i16).inverse_or_zero().value() as i64), _ => panic!("symbolic inverse") } } }
impl CyclotomicFourier for SymFelt { fn primitive_root_of_unity(n: usize) -> Self { SymFelt::C(Felt::primitive_root_of_unity(n).value() as i64) } }

#[test]
fn emit_roundtrip() {
    let n: usize = std::env::var("SYM_N").unwrap().parse().unwrap();
    let fwd: Vec<SymFelt> = (0..1024).map(|i| SymFelt::C(crate::fast_fft::probe_fwd(i).value() as i64)).collect();
    let inv: Vec<SymFelt> = (0..1024).map(|i| SymFelt::C(crate::fast_fft::probe_fwd(i).inverse_or_zero().value() as i64)).collect();
    let ninv = SymFelt::C(Felt::new(n as i16).inverse_or_zero().value() as i64 + if std::env::var("SYM_BAD").is_ok() {1} else {0});
    let mut out = String::new();
    let mut a: Vec<SymFelt> = vec![];
    let sparse: Option<usize> = std::env::var("SYM_SPARSE").ok().map(|v| v.parse().unwrap());
    for i in 0..n {
        if sparse.is_some() && sparse != Some(i) { a.push(SymFelt::C(0)); continue; }
        out += &format!("(declare-const x{i} Int)(assert (<= 0 x{i}))(assert (< x{i} {Q}))\n"); 
        a.push(fresh(format!("x{i}"))); }
    let orig = a.clone();
    SymFelt::fft(&mut a, &fwd);
    SymFelt::ifft(&mut a, &inv, ninv);
    let (f0, f1) = SymFelt::split_fft(&orig, &inv);
    let merged = SymFelt::merge_fft(&f0, &f1, &fwd);
    let suffix = if sparse.is_some() { format!("_s{}", sparse.unwrap()) } else { String::new() };
    SCRIPT.with(|s| for l in &s.borrow().1 { out += l; out += "\n"; });
    let mut ors = String::new();
    for i in 0..n { ors += &format!(" (not (= {} {}))", t(a[i]), t(orig[i])); ors += &format!(" (not (= {} {}))", t(merged[i]), t(orig[i])); }
    out += &format!("(assert (or{ors}))\n(check-sat)\n");
    std::fs::write(format!("/tmp/probe/smt/rust_rt_{n}{suffix}.smt2"), out).unwrap();
}

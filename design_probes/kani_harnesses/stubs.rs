use crate::falcon_field::Felt;
use crate::fast_fft::FastFft;
use crate::polynomial::Polynomial;
use crate::falcon::{verify, Signature, PublicKey};

fn stub_id(_p: &mut Polynomial<Felt>) {}

fn any_felt_poly(n: usize) -> Polynomial<Felt> {
    let mut v = Vec::with_capacity(n);
    for _ in 0..n { let x: i16 = kani::any(); kani::assume(x >= 0 && x < 12289); v.push(Felt::new(x)); }
    Polynomial::new(v)
}
fn stub_h2p(_s: &[u8], n: usize) -> Polynomial<Felt> { any_felt_poly(n) }

fn stub_decompress(_x: &[u8], n: usize) -> Option<Vec<i16>> {
    if kani::any() { return None; }
    let mut v = Vec::with_capacity(n);
    for _ in 0..n { let x: i16 = kani::any(); kani::assume(x > -12160 && x < 12160); v.push(x); }
    Some(v)
}

#[kani::proof]
#[kani::stub(<Polynomial<Felt> as FastFft>::fft_inplace, stub_id)]
#[kani::stub(<Polynomial<Felt> as FastFft>::ifft_inplace, stub_id)]
#[kani::unwind(3)]
fn glue_probe() {
    let p = any_felt_poly(2);
    let q = p.fft().ifft();
    assert!(q.coefficients[0] == p.coefficients[0]);
}

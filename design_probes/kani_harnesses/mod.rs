use crate::falcon_field::{Felt, Q};
use crate::inverse::Inverse;

fn any_felt() -> Felt {
    let v: i16 = kani::any();
    kani::assume(v >= 0 && (v as u32) < Q);
    Felt::new(v)
}

#[kani::proof]
fn felt_add_mul() {
    let a = any_felt();
    let b = any_felt();
    let s = a + b;
    let p = a * b;
    let d = a - b;
    let av = a.value() as u64;
    let bv = b.value() as u64;
    assert!(s.value() as u64 == (av + bv) % 12289);
    assert!(p.value() as u64 == (av * bv) % 12289);
    assert!(d.value() as u64 == (av + 12289 - bv) % 12289);
}

#[kani::proof]
fn felt_new_all() {
    let v: i16 = kani::any();
    let f = Felt::new(v);
    let expect = (v as i32).rem_euclid(12289);
    assert!(f.value() as i32 == expect);
}

#[kani::proof]
fn felt_inverse() {
    let a = any_felt();
    let i = a.inverse_or_zero();
    if a.value() == 0 {
        assert!(i.value() == 0);
    } else {
        assert!((a * i).value() == 1);
        assert!((i.value() as u32) < Q);
    }
}

use crate::cyclotomic_fourier::CyclotomicFourier;
use crate::fast_fft::FastFft;
use crate::polynomial::Polynomial;

fn pow_felt(base: Felt, mut e: usize) -> Felt {
    // square and multiply, 11 bits
    let mut acc = Felt::new(1);
    let mut b = base;
    let mut i = 0;
    while i < 11 {
        if e & 1 == 1 { acc = acc * b; }
        b = b * b;
        e >>= 1;
        i += 1;
    }
    acc
}

fn bitrev10(i: usize) -> usize {
    let mut r = 0usize;
    let mut k = 0;
    while k < 10 {
        r |= ((i >> k) & 1) << (9 - k);
        k += 1;
    }
    r
}

#[kani::proof]
#[kani::unwind(12)]
fn felt_table_fwd() {
    let i: usize = kani::any();
    kani::assume(i < 1024);
    let t = crate::fast_fft::probe_fwd(i);
    let psi = crate::fast_fft::probe_fwd(512);
    assert!(t == pow_felt(psi, bitrev10(i)));
    // psi is a primitive 2048th root: psi^1024 == -1
    assert!(pow_felt(psi, 1024).value() == 12288);
}

fn any_poly(n: usize) -> Polynomial<Felt> {
    let mut v = Vec::with_capacity(n);
    for _ in 0..n { v.push(any_felt()); }
    Polynomial::new(v)
}

fn schoolbook(a: &Polynomial<Felt>, b: &Polynomial<Felt>, n: usize) -> Vec<u32> {
    let mut c = vec![0u32; n];
    for i in 0..n {
        for j in 0..n {
            let p = (a.coefficients[i].value() as u32 * b.coefficients[j].value() as u32) % 12289;
            let k = (i + j) % n;
            if i + j >= n {
                c[k] = (c[k] + 12289 - p) % 12289;
            } else {
                c[k] = (c[k] + p) % 12289;
            }
        }
    }
    c
}

fn ntt_roundtrip_n(n: usize) {
    let a = any_poly(n);
    let r = a.fft().ifft();
    for i in 0..n {
        assert!(r.coefficients[i] == a.coefficients[i]);
    }
}

fn ntt_product_n(n: usize) {
    let a = any_poly(n);
    let b = any_poly(n);
    let c = a.fft().hadamard_mul(&b.fft()).ifft();
    let s = schoolbook(&a, &b, n);
    for i in 0..n {
        assert!(c.coefficients[i].value() as u32 == s[i]);
    }
}

#[kani::proof]
#[kani::unwind(6)]
fn ntt_roundtrip_2() { ntt_roundtrip_n(2); }
#[kani::proof]
#[kani::unwind(6)]
fn ntt_roundtrip_4() { ntt_roundtrip_n(4); }
#[kani::proof]
#[kani::unwind(10)]
fn ntt_roundtrip_8() { ntt_roundtrip_n(8); }
#[kani::proof]
#[kani::unwind(6)]
fn ntt_product_2() { ntt_product_n(2); }
#[kani::proof]
#[kani::unwind(6)]
fn ntt_product_4() { ntt_product_n(4); }


#[kani::proof]
fn felt_inverse_part5() {
    let a = any_felt();
    kani::assume((a.value() >> 10) == 5);
    let i = a.inverse_or_zero();
    assert!((a * i).value() == 1);
}
#[kani::proof]
fn felt_inverse_part11() {
    let a = any_felt();
    kani::assume((a.value() >> 10) == 11);
    let i = a.inverse_or_zero();
    assert!((a * i).value() == 1);
}

use super::COMPLEX_BITREVERSED_POWERS_1024 as T;

#[kani::proof]
fn complex_table_recurrence() {
    let j: usize = kani::any();
    kani::assume(j >= 1 && j < 512);
    let a = T[2 * j];
    let b = T[2 * j + 1];
    let p = T[j];
    // a^2 ~ p
    let re = a.re * a.re - a.im * a.im;
    let im = 2.0 * a.re * a.im;
    let tol = 1e-15;
    assert!((re - p.re).abs() <= tol && (im - p.im).abs() <= tol);
    assert!(a.re > 0.0 && a.im >= 0.0);
    // b = i * a
    assert!((b.re + a.im).abs() <= tol && (b.im - a.re).abs() <= tol);
}

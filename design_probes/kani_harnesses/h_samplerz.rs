use super::{approx_exp, base_sampler, ber_exp};

const RCDT_SPEC: [u128; 18] = [
    3024686241123004913666, 1564742784480091954050, 636254429462080897535, 199560484645026482916,
    47667343854657281903, 8595902006365044063, 1163297957344668388, 117656387352093658,
    8867391802663976, 496969357462633, 20680885154299, 638331848991, 14602316184, 247426747,
    3104126, 28824, 198, 1,
];

#[kani::proof]
#[kani::unwind(20)]
fn base_sampler_eq_spec() {
    let bytes: [u8; 9] = kani::any();
    let mut u: u128 = 0;
    let mut i = 0;
    while i < 9 { u = (u << 8) | bytes[i] as u128; i += 1; }
    let mut z0 = 0i16;
    let mut k = 0;
    while k < 18 { if u < RCDT_SPEC[k] { z0 += 1; } k += 1; }
    assert!(base_sampler(bytes) == z0);
}

const C_SPEC: [u64; 13] = [
    0x00000004741183A3, 0x00000036548CFC06, 0x0000024FDCBF140A, 0x0000171D939DE045,
    0x0000D00CF58F6F84, 0x000680681CF796E3, 0x002D82D8305B0FEA, 0x011111110E066FD0,
    0x0555555555070F00, 0x155555555581FF00, 0x400000000002B400, 0x7FFFFFFFFFFF4800,
    0x8000000000000000,
];

fn ref_approx_exp(x: f64, ccs: f64) -> u64 {
    let mut y: u64 = C_SPEC[0];
    let z: u64 = (x * 9223372036854775808.0).floor() as u64;
    let mut i = 1;
    while i < 13 {
        y = C_SPEC[i] - ((((z as u128) * (y as u128)) >> 63) as u64);
        i += 1;
    }
    let z2: u64 = (9223372036854775808.0 * ccs).floor() as u64;
    (((z2 as u128) * (y as u128)) >> 63) as u64
}

#[kani::proof]
#[kani::unwind(14)]
fn approx_exp_eq_spec() {
    let x: f64 = kani::any();
    let ccs: f64 = kani::any();
    kani::assume(x >= 0.0 && x < 0.6931471805599453);
    kani::assume(ccs > 0.0 && ccs <= 1.0);
    assert!(approx_exp(x, ccs) == ref_approx_exp(x, ccs));
}

#[kani::proof]
#[kani::unwind(14)]
fn ber_exp_total() {
    let x: f64 = kani::any();
    let ccs: f64 = kani::any();
    kani::assume(x >= 0.0 && x < 100.0);
    kani::assume(ccs > 0.0 && ccs <= 1.0);
    let bytes: [u8; 7] = kani::any();
    let _ = ber_exp(x, ccs, bytes);
}

use super::{compress, decompress};

// reference bit-level decoder (Algorithm 18), with range bound 95 on unary run for all coefficients
fn ref_decompress(x: &[u8], n: usize) -> Option<Vec<i32>> {
    let nbits = x.len() * 8;
    let bit = |i: usize| -> bool { (x[i / 8] >> (7 - (i % 8))) & 1 == 1 };
    let mut idx = 0usize;
    let mut out = Vec::with_capacity(n);
    for _ in 0..n {
        if idx + 9 > nbits { return None; }
        let sign = bit(idx); idx += 1;
        let mut low = 0i32;
        for _ in 0..7 { low = (low << 1) | (bit(idx) as i32); idx += 1; }
        let mut high = 0i32;
        loop {
            if idx >= nbits { return None; }
            let b = bit(idx); idx += 1;
            if b { break; }
            high += 1;
        }
        let v = (high << 7) | low;
        if sign && v == 0 { return None; }
        out.push(if sign { -v } else { v });
    }
    while idx < nbits { if bit(idx) { return None; } idx += 1; }
    Some(out)
}

fn decompress_vs_ref<const L: usize>(n: usize) {
    let x: [u8; L] = kani::any();
    let got = decompress(&x, n);
    let want = ref_decompress(&x, n);
    match (got, want) {
        (Some(g), Some(w)) => {
            assert!(g.len() == n);
            for i in 0..n { assert!(g[i] as i32 == w[i]); }
        }
        (None, None) => {}
        (Some(_), None) => { assert!(false); }
        (None, Some(w)) => {
            // allowed only if some coefficient out of range (>= 12160)
            let mut oor = false;
            for i in 0..n { if w[i] >= 12160 || w[i] <= -12160 { oor = true; } }
            assert!(oor);
        }
    }
}

#[kani::proof]
#[kani::unwind(26)]
fn decompress_n1_l3() { decompress_vs_ref::<3>(1); }

#[kani::proof]
#[kani::unwind(26)]
fn decompress_n2_l3() { decompress_vs_ref::<3>(2); }

#[kani::proof]
#[kani::unwind(26)]
fn decompress_n3_l3() { decompress_vs_ref::<3>(3); }

#[kani::proof]
#[kani::unwind(34)]
fn decompress_n3_l4() { decompress_vs_ref::<4>(3); }

#[kani::proof]
#[kani::unwind(34)]
fn compress_roundtrip_n2() {
    let a: i16 = kani::any();
    let b: i16 = kani::any();
    kani::assume(a > -12160 && a < 12160 && b > -12160 && b < 12160);
    let l: usize = kani::any();
    kani::assume(l <= 4);
    let v = [a, b];
    let bits = 18 + (a.unsigned_abs() >> 7) as usize + (b.unsigned_abs() >> 7) as usize;
    match compress(&v, l) {
        None => assert!(bits > 8 * l),
        Some(x) => {
            assert!(bits <= 8 * l);
            assert!(x.len() == l);
            let d = decompress(&x, 2);
            match d { Some(w) => { assert!(w[0] == a && w[1] == b); } None => assert!(false) }
        }
    }
}

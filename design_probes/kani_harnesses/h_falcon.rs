use super::*;
use crate::falcon_field::Felt;
use crate::polynomial::Polynomial;
use crate::fast_fft::FastFft;

fn any_felt_poly(n: usize) -> Polynomial<Felt> {
    let mut v = Vec::with_capacity(n);
    for _ in 0..n { let x: i16 = kani::any(); kani::assume(x >= 0 && x < 12289); v.push(Felt::new(x)); }
    Polynomial::new(v)
}
static mut C_LOG: Option<Polynomial<Felt>> = None;
static mut S2_LOG: Option<Option<Vec<i16>>> = None;

fn stub_h2p(_s: &[u8], n: usize) -> Polynomial<Felt> {
    let p = any_felt_poly(n);
    unsafe { C_LOG = Some(p.clone()); }
    p
}
fn stub_decompress(_x: &[u8], n: usize) -> Option<Vec<i16>> {
    let r = if kani::any() { None } else {
        let mut v = Vec::with_capacity(n);
        for _ in 0..n { let x: i16 = kani::any(); kani::assume(x > -12160 && x < 12160); v.push(x); }
        Some(v)
    };
    unsafe { S2_LOG = Some(r.clone()); }
    r
}
fn stub_from_n(_n: usize) -> FalconVariant { FalconVariant::Falcon512 }

#[kani::proof]
#[kani::stub(crate::polynomial::hash_to_point, stub_h2p)]
#[kani::stub(crate::encoding::decompress, stub_decompress)]
#[kani::stub(FalconVariant::from_n, stub_from_n)]
#[kani::unwind(5)]
fn verify_glue_n2() {
    const N: usize = 2;
    let h = any_felt_poly(N);
    let pk = PublicKey::<N> { h: h.clone() };
    let sig = Signature::<N> { r: [0u8; 40], s: vec![0u8; 3] };
    let got = verify::<N>(&[1u8, 2, 3], &sig, &pk);
    let c = unsafe { C_LOG.clone().unwrap() };
    let s2o = unsafe { S2_LOG.clone().unwrap() };
    match s2o {
        None => assert!(!got),
        Some(s2) => {
            let s2p = Polynomial::new(vec![Felt::new(s2[0]), Felt::new(s2[1])]);
            let s1 = (c.fft() - s2p.fft().hadamard_mul(&h.fft())).ifft();
            let mut norm: i64 = 0;
            for i in 0..N {
                let v = s1.coefficients[i].value() as i64;
                let b = if v > 6144 { v - 12289 } else { v };
                norm += b * b + (s2[i] as i64) * (s2[i] as i64);
            }
            assert!(got == (norm <= 34034726));
        }
    }
}

#!/bin/bash
# Offline setup after a fresh restore: build the native replay driver (dev+release), warm the Kani build,
# dump MIR once (each check re-dumps/rebuilds from /repo's current tree anyway).
set -e
export CARGO_NET_OFFLINE=true
cd /verif
mkdir -p .build evidence counterexamples
cp /repo/Cargo.lock replay/Cargo.lock 2>/dev/null || true
RUSTFLAGS="--cfg aszepieniec_falcon_rust_verif" cargo build --offline --manifest-path replay/Cargo.toml --target-dir .build/replay-target
RUSTFLAGS="--cfg aszepieniec_falcon_rust_verif" cargo build --offline --release --manifest-path replay/Cargo.toml --target-dir .build/replay-target
(cd /repo/falcon-rust && cargo kani --target-dir /verif/.build/kani-target --only-codegen >/dev/null 2>&1 || true)
echo setup done

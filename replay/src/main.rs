// Engine R: reads one request per line on stdin (tab-separated argv), prints one reply per line.
// With arguments: a single request from argv.
use std::io::{BufRead, Write};
fn main() {
    let argv: Vec<String> = std::env::args().skip(1).collect();
    if !argv.is_empty() {
        println!("{}", falcon_rust::verif_hook::verif_call(&argv));
        return;
    }
    let stdin = std::io::stdin();
    let out = std::io::stdout();
    for line in stdin.lock().lines() {
        let line = line.unwrap();
        let args: Vec<String> = line.split('\t').map(|s| s.to_string()).collect();
        let r = falcon_rust::verif_hook::verif_call(&args);
        let mut o = out.lock();
        writeln!(o, "{}", r).unwrap();
        o.flush().unwrap();
    }
}

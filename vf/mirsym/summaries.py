"""Library summaries of mirsym — the trusted base of engine M (listed in every evidence file).

Each summary is `f(ex, st, fr, args, info) -> value`. Panicking library behaviour that matters for the properties
(index out of range, unwrap on None/Err, try_into of a wrong length) is modelled: it records a panic and ends the path."""
import re
import z3
from .values import *
from .interp import PathEnd, ForkOn, ForkBool, Unsupported, binop, unop, cast_int, mkint, mkbool, PENDING, float_to_int, fbinop

S = {}


def summary(*names):
    def deco(f):
        for n in names:
            S[n] = f
        return f
    return deco


def lib_panic(ex, st, fr, msg):
    ex.record_panic(st, fr, 'library', msg, ex.model())
    raise PathEnd()


def as_loc(x):
    if isinstance(x, Ref):
        return x.loc
    raise Unsupported('expected reference, got %r' % (x,))


# ---------------------------------------------------------------------------------------------- iterators
def it_next(ex, st, it):
    """-> (it', item) ; item is None at the end"""
    k = it.kind; a = it.a
    if k == 'slice':            # (loc, pos, end): yields &T
        loc, pos, end = a
        if pos >= end: return it, None
        return It('slice', loc, pos + 1, end), Ref(loc.sub(pos))
    if k == 'list':             # (items, pos): yields items by value
        items, pos = a
        if pos >= len(items): return it, None
        return It('list', items, pos + 1), items[pos]
    if k == 'range':            # (cur, end, ty)
        cur, end, ty = a
        if cur >= end: return it, None
        return It('range', cur + 1, end, ty), mkint(cur, ty)
    if k == 'map':
        inner, f = a
        inner2, x = it_next(ex, st, inner)
        if x is None: return It('map', inner2, f), None
        return It('map', inner2, f), ex.call_value(st, f, [x])
    if k == 'filter':
        inner, f = a
        while True:
            inner, x = it_next(ex, st, inner)
            if x is None: return It('filter', inner, f), None
            cell = st.alloc(x)
            keep = ex.call_value(st, f, [Ref(cell)])
            if ex.conc_bool(st, keep):
                return It('filter', inner, f), x
    if k == 'skip':
        inner, n = a
        while n > 0:
            inner, x = it_next(ex, st, inner)
            n -= 1
            if x is None: return It('skip', inner, 0), None
        inner, x = it_next(ex, st, inner)
        return It('skip', inner, 0), x
    if k == 'take':
        inner, n = a
        if n == 0: return it, None
        inner, x = it_next(ex, st, inner)
        return It('take', inner, n - 1 if x is not None else 0), x
    if k == 'step_by':
        inner, step, first = a
        if first:
            inner, x = it_next(ex, st, inner)
            return It('step_by', inner, step, False), x
        x = None
        for _ in range(step):
            inner, x = it_next(ex, st, inner)
            if x is None: break
        return It('step_by', inner, step, False), x
    if k == 'enumerate':
        inner, i = a
        inner, x = it_next(ex, st, inner)
        if x is None: return It('enumerate', inner, i), None
        return It('enumerate', inner, i + 1), Tup(mkint(i, 'usize'), x)
    if k == 'zip':
        l, r = a
        l, x = it_next(ex, st, l)
        if x is None: return It('zip', l, r), None
        r, y = it_next(ex, st, r)
        if y is None: return It('zip', l, r), None
        return It('zip', l, r), Tup(x, y)
    if k == 'rev':
        items = it_drain(ex, st, a[0])
        return it_next(ex, st, It('list', tuple(reversed(items)), 0))
    if k == 'cloned':
        inner, x = it_next(ex, st, a[0])
        if x is None: return It('cloned', inner), None
        return It('cloned', inner), ex.deref(st, x)
    if k == 'repeat_with':
        return it, ex.call_value(st, a[0], [])
    if k == 'repeat':
        return it, a[0]
    if k == 'from_fn':
        r = ex.call_value(st, a[0], [])
        return it, (r.f[0] if r.variant == 'Some' else None)
    if k == 'successors':
        cur, f = a
        if cur.variant != 'Some': return it, None
        cell = st.alloc(cur.f[0])
        return It('successors', ex.call_value(st, f, [Ref(cell)]), f), cur.f[0]
    if k == 'inspect':
        inner, x = it_next(ex, st, a[0])
        if x is None: return It('inspect', inner, a[1]), None
        ex.call_value(st, a[1], [Ref(st.alloc(x))])
        return It('inspect', inner, a[1]), x
    if k == 'skip_while':
        inner, f, skipping = a
        while True:
            inner, x = it_next(ex, st, inner)
            if x is None: return It('skip_while', inner, f, False), None
            if skipping and ex.conc_bool(st, ex.call_value(st, f, [Ref(st.alloc(x))])):
                continue
            return It('skip_while', inner, f, False), x
    if k == 'map_while':
        inner, f, live = a
        if not live: return it, None
        inner, x = it_next(ex, st, inner)
        if x is None: return It('map_while', inner, f, False), None
        r = ex.call_value(st, f, [x])
        if r.variant != 'Some': return It('map_while', inner, f, False), None
        return It('map_while', inner, f, True), r.f[0]
    if k == 'scan':
        inner, cell, f, live = a
        if not live: return it, None
        inner, x = it_next(ex, st, inner)
        if x is None: return It('scan', inner, cell, f, False), None
        r = ex.call_value(st, f, [Ref(cell), x])
        if r.variant != 'Some': return It('scan', inner, cell, f, False), None
        return It('scan', inner, cell, f, True), r.f[0]
    if k == 'flatten':
        outer, cur = a
        while True:
            if cur is not None:
                cur, x = it_next(ex, st, cur)
                if x is not None: return It('flatten', outer, cur), x
            outer, nxt = it_next(ex, st, outer)
            if nxt is None: return It('flatten', outer, None), None
            if isinstance(nxt, Agg) and nxt.name in ('Option', 'Result'):
                cur = It('list', (nxt.f[0],) if nxt.variant in ('Some', 'Ok') else (), 0)
            else:
                cur = to_iter(ex, st, nxt)
    raise Unsupported('iterator kind ' + k)


def it_drain(ex, st, it):
    out = []
    while True:
        it, x = it_next(ex, st, it)
        if x is None:
            return out
        out.append(x)
        if len(out) > 200000:
            raise Unsupported('iterator does not end (an unbounded generator drained by an eager summary?)')


def to_iter(ex, st, v):
    """IntoIterator on a value"""
    if isinstance(v, It):
        return v
    if isinstance(v, Agg) and v.name == 'Range':
        a = ex.conc_int(st, v.f[0]); b = ex.conc_int(st, v.f[1])
        return It('range', a, b, v.f[0].ty)
    if isinstance(v, Agg) and v.name == 'RangeInclusive':
        a = ex.conc_int(st, v.f[0]); b = ex.conc_int(st, v.f[1])
        return It('range', a, b + 1, v.f[0].ty)
    if isinstance(v, Seq):                      # array / Vec by value
        return It('list', v.e, 0)
    if isinstance(v, Ref):                      # &Vec / &[T] / &BitVec / &IntoChunks
        tgt = ex.load(st, v.loc)
        if isinstance(tgt, It):
            return tgt
        if isinstance(tgt, Seq):
            if tgt.kind == 'bitvec':
                return It('list', tgt.e, 0)
            if v.rng is not None:
                return It('slice', v.loc, v.rng[0], v.rng[0] + v.rng[1])
            return It('slice', v.loc, 0, len(tgt.e))
    raise Unsupported('into_iter of %r' % (v,))


@summary('slice::iter', 'Vec::iter')
def s_slice_iter(ex, st, fr, args, info):
    r = args[0]
    if r.rng is not None:
        return It('slice', r.loc, r.rng[0], r.rng[0] + r.rng[1])
    v = ex.load(st, r.loc)
    return It('slice', r.loc, 0, len(v.e))


@summary('IntoIterator::into_iter')
def s_into_iter(ex, st, fr, args, info):
    return to_iter(ex, st, args[0])


@summary('Iterator::next')
def s_next(ex, st, fr, args, info):
    loc = as_loc(args[0])
    it = ex.load(st, loc)
    if isinstance(it, Agg) and it.name in ('Range', 'RangeInclusive'):
        it = to_iter(ex, st, it)
    it2, x = it_next(ex, st, it)
    ex.store(st, loc, it2)
    return NONE if x is None else Some(x)


@summary('Iterator::map')
def s_map(ex, st, fr, args, info): return It('map', to_iter(ex, st, args[0]), args[1])
@summary('Iterator::filter')
def s_filter(ex, st, fr, args, info): return It('filter', to_iter(ex, st, args[0]), args[1])
@summary('Iterator::skip')
def s_skip(ex, st, fr, args, info): return It('skip', to_iter(ex, st, args[0]), ex.conc_int(st, args[1]))
@summary('Iterator::take')
def s_take(ex, st, fr, args, info): return It('take', to_iter(ex, st, args[0]), ex.conc_int(st, args[1]))
@summary('Iterator::rev')
def s_rev(ex, st, fr, args, info): return It('rev', to_iter(ex, st, args[0]))
@summary('Iterator::step_by')
def s_step_by(ex, st, fr, args, info): return It('step_by', to_iter(ex, st, args[0]), ex.conc_int(st, args[1]), True)
@summary('Iterator::enumerate')
def s_enumerate(ex, st, fr, args, info): return It('enumerate', to_iter(ex, st, args[0]), 0)
@summary('Iterator::zip')
def s_zip(ex, st, fr, args, info): return It('zip', to_iter(ex, st, args[0]), to_iter(ex, st, args[1]))
@summary('Iterator::cloned', 'Iterator::copied')
def s_cloned(ex, st, fr, args, info): return It('cloned', to_iter(ex, st, args[0]))


@summary('Itertools::collect_vec')
def s_collect_vec(ex, st, fr, args, info):
    return Seq('vec', it_drain(ex, st, to_iter(ex, st, args[0])))


@summary('Iterator::collect')
def s_collect(ex, st, fr, args, info):
    raw = info['raw']
    items = it_drain(ex, st, to_iter(ex, st, args[0]))
    m = re.search(r'collect::<(.*)>$', raw)
    target = m.group(1) if m else ''
    if target.startswith('Result<'):
        errs = []; oks = []
        for x in items:
            if isinstance(x, SymResult):
                errs.append((x.err, x.errval)); oks.append(x.ok)
            elif isinstance(x, Agg) and x.name == 'Result':
                if x.variant == 'Err':
                    errs.append((z3.BoolVal(True), x.f[0])); oks.append(None)
                else:
                    oks.append(x.f[0])
            else:
                raise Unsupported('collect Result over %r' % (x,))
        any_err = simp(z3.Or(*[e for e, _ in errs])) if errs else z3.BoolVal(False)
        if z3.is_false(any_err):
            return Ok(Seq('vec', oks))
        errval = errs[0][1]
        if z3.is_true(any_err):
            return Err(errval)
        return SymResult(any_err, Seq('vec', oks), errval)
    if target.startswith('Vec<') or target == '' or target.startswith('std::vec::Vec<'):
        return Seq('vec', items)
    if target.startswith('Option<') or target.startswith('std::option::Option<') or target.startswith('core::option::Option<'):
        outv = []; nones = []
        for x in items:
            if isinstance(x, SymResult) and x.opt:
                nones.append(x.err); outv.append(x.ok); continue
            if not (isinstance(x, Agg) and x.name == 'Option'):
                raise Unsupported('collect Option over %r' % (x,))
            if x.variant == 'None':
                return NONE
            outv.append(x.f[0])
        anyn = simp(z3.Or(*nones)) if nones else z3.BoolVal(False)
        if z3.is_false(anyn):
            return Some(Seq('vec', outv))
        if z3.is_true(anyn):
            return NONE
        return SymResult(anyn, Seq('vec', outv), None, opt=True)
    if target.startswith('BitVec') or target.startswith('bit_vec::BitVec'):
        return Seq('bitvec', items)
    if target == '_' or target.startswith('Box<['):
        return Seq('vec', items)
    raise Unsupported('collect target ' + target)


@summary('Iterator::sum')
def s_sum(ex, st, fr, args, info):
    items = it_drain(ex, st, to_iter(ex, st, args[0]))
    m = re.search(r'sum::<(\w+)>', info['raw'])
    ty = m.group(1)
    ex.user.setdefault('sum_types', []).append((ty, len(items)))
    acc = mkint(0, ty)
    w = WIDTH[ty]
    for x in items:
        if isinstance(x, Ref): x = ex.deref(st, x)
        # std's Sum uses `+` : overflow panics when overflow checks are on (the std prebuilt is compiled without them,
        # but `Add::add` is inlined generic code instantiated in the user crate: it DOES check). Model: checked.
        from .interp import ovf_op
        r = ovf_op('Add', acc, x)
        o = r.f[1]
        if o.conc:
            if o.t: lib_panic(ex, st, fr, 'attempt to add with overflow (Iterator::sum)')
        else:
            bad, model = ex.possible(o.t, ex.site(fr) + ':lib')
            ex.assert_sites.setdefault(ex.site(fr) + ':sum', [0, 0, 'sum overflow'])[0] += 1
            if bad:
                ex.record_panic(st, fr, 'library', 'attempt to add with overflow (Iterator::sum)', model)
                ex.assume_or_end(z3.Not(o.t))
        acc = r.f[0]
    return acc


@summary('Iterator::count')
def s_count(ex, st, fr, args, info):
    it = to_iter(ex, st, args[0])
    if it.kind == 'filter':
        inner, f = it.a
        items = it_drain(ex, st, inner)
        total = mkint(0, 'usize')
        for x in items:
            cell = st.alloc(x)
            keep = ex.call_value(st, f, [Ref(cell)])
            total = binop('Add', total, cast_int(keep, 'usize'))
        return total
    return mkint(len(it_drain(ex, st, it)), 'usize')


@summary('Iterator::all')
def s_all(ex, st, fr, args, info):
    loc = as_loc(args[0])
    it = ex.load(st, loc)
    items = it_drain(ex, st, to_iter(ex, st, it))
    acc = mkbool(True)
    for x in items:
        r = ex.call_value(st, args[1], [x])
        acc = binop('BitAnd', acc, r)
    ex.store(st, loc, It('list', (), 0))
    return acc


@summary('Itertools::chunks')
def s_chunks(ex, st, fr, args, info):
    items = it_drain(ex, st, to_iter(ex, st, args[0]))
    n = ex.conc_int(st, args[1])
    if n == 0: lib_panic(ex, st, fr, 'chunks(0)')
    return It('list', tuple(It('list', tuple(items[i:i + n]), 0) for i in range(0, len(items), n)), 0)


# ---------------------------------------------------------------------------------------------- Vec / slices / arrays
@summary('Vec::new', 'Vec::with_capacity')
def s_vec_new(ex, st, fr, args, info): return Seq('vec', ())


@summary('Vec::push')
def s_vec_push(ex, st, fr, args, info):
    loc = as_loc(args[0]); v = ex.load(st, loc)
    ex.store(st, loc, Seq('vec', v.e + (args[1],)))
    return UNIT


@summary('Vec::len', 'slice::len', 'BitVec::len')
def s_len(ex, st, fr, args, info):
    return mkint(ex.slice_len(st, args[0]), 'usize')


@summary('slice::is_empty', 'Vec::is_empty')
def s_is_empty(ex, st, fr, args, info):
    return mkbool(ex.slice_len(st, args[0]) == 0)


@summary('Deref::deref', 'DerefMut::deref_mut', 'Vec::as_slice', 'Vec::as_mut_slice', 'AsRef::as_ref', 'Borrow::borrow')
def s_deref(ex, st, fr, args, info):
    r = args[0]
    v = ex.load(st, r.loc)
    if isinstance(v, Seq):
        return Ref(r.loc, (0, len(v.e)) if r.rng is None else r.rng)
    if isinstance(v, Ref):      # Box<T> / &&T
        return v
    return r


@summary('Index::index', 'IndexMut::index_mut')
def s_index(ex, st, fr, args, info):
    r = args[0]; ix = args[1]
    n = ex.slice_len(st, r); base = r.rng[0] if r.rng else 0
    tgt = ex.load(st, r.loc)
    if isinstance(ix, Agg) and ix.name in ('Range', 'RangeFrom', 'RangeTo', 'RangeInclusive', 'RangeFull'):
        if ix.name == 'Range': a, b = ex.conc_int(st, ix.f[0]), ex.conc_int(st, ix.f[1])
        elif ix.name == 'RangeFrom': a, b = ex.conc_int(st, ix.f[0]), n
        elif ix.name == 'RangeTo': a, b = 0, ex.conc_int(st, ix.f[0])
        elif ix.name == 'RangeInclusive': a, b = ex.conc_int(st, ix.f[0]), ex.conc_int(st, ix.f[1]) + 1
        else: a, b = 0, n
        if a > b: lib_panic(ex, st, fr, 'slice index starts at %d but ends at %d' % (a, b))
        if b > n: lib_panic(ex, st, fr, 'range end index %d out of range for slice of length %d' % (b, n))
        return Ref(r.loc, (base + a, b - a))
    i = ex.conc_int(st, ix)
    if i < 0 or i >= n:
        lib_panic(ex, st, fr, 'index out of bounds: the len is %d but the index is %d' % (n, i))
    if isinstance(tgt, Seq) and tgt.kind == 'bitvec':
        return temp_ref(tgt.e[base + i])
    return Ref(r.loc.sub(base + i))


@summary('Clone::clone', 'ToOwned::to_owned')
def s_clone(ex, st, fr, args, info):
    return ex.deref(st, args[0])


@summary('std::vec::from_elem', 'alloc::vec::from_elem')
def s_from_elem(ex, st, fr, args, info):
    return Seq('vec', [args[0]] * ex.conc_int(st, args[1]))


@summary('slice::to_vec')
def s_to_vec(ex, st, fr, args, info):
    return Seq('vec', ex.slice_elems(st, args[0]))


@summary('slice::concat')
def s_concat(ex, st, fr, args, info):
    out = []
    for v in ex.slice_elems(st, args[0]):
        out.extend(v.e)
    return Seq('vec', out)


@summary('slice::last')
def s_last(ex, st, fr, args, info):
    r = args[0]; n = ex.slice_len(st, r); base = r.rng[0] if r.rng else 0
    return NONE if n == 0 else Some(Ref(r.loc.sub(base + n - 1)))


@summary('slice::first')
def s_first(ex, st, fr, args, info):
    r = args[0]; n = ex.slice_len(st, r); base = r.rng[0] if r.rng else 0
    return NONE if n == 0 else Some(Ref(r.loc.sub(base)))


@summary('TryInto::try_into', 'TryFrom::try_from')
def s_try_into(ex, st, fr, args, info):
    raw = info['raw']
    m = re.search(r'\[\w+; (\d+)\]', raw)
    if not m:
        raise Unsupported('try_into ' + raw)
    want = int(m.group(1))
    src = args[0]
    elems = ex.slice_elems(st, src) if isinstance(src, Ref) else src.e
    if len(elems) != want:
        return Err(Opaque('TryFromSliceError'))
    return Ok(Seq('arr', elems))


@summary('Option::unwrap', 'Result::unwrap', 'Option::expect', 'Result::expect')
def s_unwrap(ex, st, fr, args, info):
    v = args[0]
    if isinstance(v, SymResult):
        bad, model = ex.check(v.err)
        if bad:
            ex.record_panic(st, fr, 'library', 'called `Result::unwrap()` on an `Err` value', model)
            ex.assume_or_end(z3.Not(v.err))
        return v.ok
    if v.variant in ('Some', 'Ok'):
        return v.f[0]
    lib_panic(ex, st, fr, 'called `%s::unwrap()` on a `%s` value' % (v.name, v.variant))


@summary('Option::is_some')
def s_is_some(ex, st, fr, args, info):
    v = ex.deref(st, args[0])
    if isinstance(v, SymResult) and v.opt: return lift(simp(z3.Not(v.err)), 'bool')
    return mkbool(v.variant == 'Some')
@summary('Option::is_none')
def s_is_none(ex, st, fr, args, info):
    v = ex.deref(st, args[0])
    if isinstance(v, SymResult) and v.opt: return lift(simp(v.err), 'bool')
    return mkbool(v.variant == 'None')


@summary('Try::branch')
def s_try_branch(ex, st, fr, args, info):
    v = args[0]
    if isinstance(v, SymResult):
        if ex.conc_bool(st, V(v.err, 'bool')):
            return Agg('ControlFlow', 'Break', (NONE if v.opt else Err(v.errval),))
        return Agg('ControlFlow', 'Continue', (v.ok,))
    if v.variant in ('Ok', 'Some'):
        return Agg('ControlFlow', 'Continue', (v.f[0],))
    return Agg('ControlFlow', 'Break', (v,))


@summary('FromResidual::from_residual')
def s_from_residual(ex, st, fr, args, info):
    return args[0]


@summary('From::from', 'Into::into')
def s_from(ex, st, fr, args, info):
    raw = info['raw']
    m = re.match(r'<(\w+) as From<(\w+)>>', raw)
    if m and m.group(1) in WIDTH and (m.group(2) in WIDTH or m.group(2) == 'bool'):
        return cast_int(args[0], m.group(1))
    return args[0]


# Box / vec! plumbing -----------------------------------------------------------------------
@summary('Box::new_uninit', 'Box::new')
def s_box_new(ex, st, fr, args, info):
    return Ref(st.alloc(args[0] if args else Opaque('uninit')))


@summary('std::boxed::box_assume_init_into_vec_unsafe', 'alloc::boxed::box_assume_init_into_vec_unsafe', 'slice::into_vec')
def s_box_into_vec(ex, st, fr, args, info):
    v = ex.load(st, args[0].loc)
    return Seq('vec', v.e)


# ---------------------------------------------------------------------------------------------- BitVec
def bits_of_byte(b):
    if b.conc:
        return [mkbool((b.t >> k) & 1) for k in range(7, -1, -1)]
    return [lift(simp(z3.Extract(k, k, b.t) == 1), 'bool') for k in range(7, -1, -1)]


@summary('BitVec::from_bytes')
def s_bv_from_bytes(ex, st, fr, args, info):
    bits = []
    for byte in ex.slice_elems(st, args[0]):
        bits.extend(bits_of_byte(byte))
    return Seq('bitvec', bits)


@summary('BitVec::new', 'BitVec::with_capacity')
def s_bv_new(ex, st, fr, args, info): return Seq('bitvec', ())


@summary('BitVec::push')
def s_bv_push(ex, st, fr, args, info):
    loc = as_loc(args[0]); v = ex.load(st, loc)
    ex.store(st, loc, Seq('bitvec', v.e + (args[1],)))
    return UNIT


@summary('BitVec::append')
def s_bv_append(ex, st, fr, args, info):
    l1, l2 = as_loc(args[0]), as_loc(args[1])
    a, b = ex.load(st, l1), ex.load(st, l2)
    ex.store(st, l1, Seq('bitvec', a.e + b.e))
    ex.store(st, l2, Seq('bitvec', ()))
    return UNIT


@summary('BitVec::get')
def s_bv_get(ex, st, fr, args, info):
    v = ex.load(st, args[0].loc); i = ex.conc_int(st, args[1])
    return Some(v.e[i]) if 0 <= i < len(v.e) else NONE


@summary('BitVec::iter')
def s_bv_iter(ex, st, fr, args, info):
    return It('list', ex.load(st, args[0].loc).e, 0)


@summary('FromIterator::from_iter')
def s_from_iter(ex, st, fr, args, info):
    items = it_drain(ex, st, to_iter(ex, st, args[0]))
    if 'BitVec' in info['raw']:
        return Seq('bitvec', items)
    return Seq('vec', items)


def byte_of_bits(bits):
    if all(b.conc for b in bits):
        x = 0
        for b in bits: x = (x << 1) | int(b.t)
        return mkint(x, 'u8')
    t = z3.Concat(*[z3.If(bl(b), z3.BitVecVal(1, 1), z3.BitVecVal(0, 1)) for b in bits])
    return lift(simp(t), 'u8')


@summary('BitVec::to_bytes')
def s_bv_to_bytes(ex, st, fr, args, info):
    v = ex.load(st, args[0].loc)
    bits = list(v.e)
    while len(bits) % 8: bits.append(mkbool(False))
    return Seq('vec', [byte_of_bits(bits[i:i + 8]) for i in range(0, len(bits), 8)])


# ---------------------------------------------------------------------------------------------- integers / floats
def val_of(ex, st, x):
    return ex.deref(st, x) if isinstance(x, Ref) else x


@summary('Integer::div_mod_floor')
def s_div_mod_floor(ex, st, fr, args, info):
    a = val_of(ex, st, args[0]); b = val_of(ex, st, args[1])
    if signed(a.ty): raise Unsupported('signed div_mod_floor')
    bz = binop('Eq', b, mkint(0, b.ty))
    if bz.conc and bz.t: lib_panic(ex, st, fr, 'attempt to divide by zero')
    return Tup(binop('Div', a, b), binop('Rem', a, b))


def _refop(op):
    def f(ex, st, fr, args, info):
        return binop(op, val_of(ex, st, args[0]), val_of(ex, st, args[1]))
    return f


def _checked_refop(op):
    from .interp import ovf_op
    def f(ex, st, fr, args, info):
        a, b = val_of(ex, st, args[0]), val_of(ex, st, args[1])
        if a.ty == 'f64': return fbinop(op, a, b)
        r = ovf_op(op, a, b)
        o = r.f[1]
        if o.conc:
            if o.t: lib_panic(ex, st, fr, 'attempt to %s with overflow' % op.lower())
        else:
            bad, model = ex.possible(o.t, ex.site(fr) + ':lib')
            if bad:
                ex.record_panic(st, fr, 'library', 'attempt to %s with overflow' % op.lower(), model)
                ex.assume_or_end(z3.Not(o.t))
        return r.f[0]
    return f


S['Add::add'] = _checked_refop('Add')
S['Sub::sub'] = _checked_refop('Sub')
S['Mul::mul'] = _checked_refop('Mul')
S['BitAnd::bitand'] = _refop('BitAnd')
S['BitOr::bitor'] = _refop('BitOr')
S['BitXor::bitxor'] = _refop('BitXor')


@summary('Shr::shr', 'Shl::shl')
def s_shift(ex, st, fr, args, info):
    a, b = val_of(ex, st, args[0]), val_of(ex, st, args[1])
    w = WIDTH[a.ty]
    big = binop('Ge', cast_int(b, 'u64'), mkint(w, 'u64'))
    what = 'right' if info['method'] == 'shr' else 'left'
    if big.conc:
        if big.t: lib_panic(ex, st, fr, 'attempt to shift %s with overflow' % what)
    else:
        bad, model = ex.possible(big.t, ex.site(fr) + ':lib')
        if bad:
            ex.record_panic(st, fr, 'library', 'attempt to shift %s with overflow' % what, model)
            ex.assume_or_end(z3.Not(big.t))
    return binop('Shr' if info['method'] == 'shr' else 'Shl', a, b)


@summary('AddAssign::add_assign', 'SubAssign::sub_assign', 'MulAssign::mul_assign', 'BitOrAssign::bitor_assign')
def s_op_assign(ex, st, fr, args, info):
    op = {'add_assign': 'Add::add', 'sub_assign': 'Sub::sub', 'mul_assign': 'Mul::mul', 'bitor_assign': 'BitOr::bitor'}[info['method']]
    loc = as_loc(args[0])
    cur = ex.load(st, loc)
    ex.store(st, loc, S[op](ex, st, fr, [cur, args[1]], info))
    return UNIT


@summary('Ord::min', 'Ord::max')
def s_minmax(ex, st, fr, args, info):
    a, b = args
    c = binop('Le', a, b) if info['method'] == 'min' else binop('Ge', a, b)
    if c.conc:
        return a if c.t else b
    return V(z3.If(c.t, bv(a), bv(b)), a.ty)


@summary('int::unsigned_abs')
def s_unsigned_abs(ex, st, fr, args, info):
    a = args[0]; uty = 'u' + a.ty[1:]
    if a.conc: return mkint(abs(a.t), uty)
    return lift(simp(z3.If(a.t < 0, -a.t, a.t)), uty)


@summary('int::abs')
def s_abs(ex, st, fr, args, info):
    a = args[0]
    w = WIDTH[a.ty]
    ismin = binop('Eq', a, mkint(-(1 << (w - 1)), a.ty))
    if ismin.conc:
        if ismin.t: lib_panic(ex, st, fr, 'attempt to negate with overflow')
    else:
        bad, model = ex.possible(ismin.t, ex.site(fr) + ':lib')
        if bad:
            ex.record_panic(st, fr, 'library', 'attempt to negate with overflow (abs)', model)
            ex.assume_or_end(z3.Not(ismin.t))
    if a.conc: return mkint(abs(a.t), a.ty)
    return lift(simp(z3.If(a.t < 0, -a.t, a.t)), a.ty)


@summary('int::checked_ilog2')
def s_checked_ilog2(ex, st, fr, args, info):
    a = ex.conc_int(st, args[0])
    return NONE if a <= 0 else Some(mkint(a.bit_length() - 1, 'u32'))


@summary('int::ilog2')
def s_ilog2(ex, st, fr, args, info):
    a = ex.conc_int(st, args[0])
    if a <= 0: lib_panic(ex, st, fr, 'argument of integer logarithm must be positive')
    return mkint(a.bit_length() - 1, 'u32')


@summary('int::overflowing_add', 'int::overflowing_sub', 'int::overflowing_mul')
def s_overflowing(ex, st, fr, args, info):
    from .interp import ovf_op
    return ovf_op({'overflowing_add': 'Add', 'overflowing_sub': 'Sub', 'overflowing_mul': 'Mul'}[info['method']], args[0], args[1])


@summary('int::wrapping_add')
def s_wadd(ex, st, fr, args, info): return binop('Add', args[0], args[1])
@summary('int::wrapping_sub')
def s_wsub(ex, st, fr, args, info): return binop('Sub', args[0], args[1])
@summary('int::wrapping_mul')
def s_wmul(ex, st, fr, args, info): return binop('Mul', args[0], args[1])


@summary('int::rem_euclid')
def s_rem_euclid(ex, st, fr, args, info):
    a, b = args
    r = binop('Rem', a, b)
    if r.conc: return mkint(r.t + b.t if r.t < 0 else r.t, a.ty)
    return lift(simp(z3.If(bv(r) < 0, bv(r) + bv(b), bv(r))), a.ty)


@summary('int::from_be_bytes', 'int::from_le_bytes')
def s_from_bytes(ex, st, fr, args, info):
    ty = info['int_ty']; e = list(args[0].e)
    if info['method'] == 'from_le_bytes': e.reverse()
    if all(x.conc for x in e):
        v = 0
        for x in e: v = (v << 8) | x.t
        return mkint(v, ty)
    return lift(simp(z3.Concat(*[bv(x) for x in e])), ty)


@summary('f64::floor')
def s_floor(ex, st, fr, args, info):
    a = args[0]
    if a.conc:
        import math
        return V(float(math.floor(a.t)) if a.t == a.t and abs(a.t) != float('inf') else a.t, 'f64')
    return V(z3.fpRoundToIntegral(z3.RTN(), a.t), 'f64')


@summary('PartialEq::eq', 'PartialEq::ne')
def s_eq(ex, st, fr, args, info):
    a, b = val_of(ex, st, args[0]), val_of(ex, st, args[1])
    if isinstance(a, Ref): a = ex.deref(st, a)
    if isinstance(b, Ref): b = ex.deref(st, b)
    r = deep_eq(a, b)
    return r if info['method'] == 'eq' else unop('Not', r)


def deep_eq(a, b):
    if isinstance(a, V):
        return binop('Eq', a, b)
    if isinstance(a, Seq):
        if len(a.e) != len(b.e): return mkbool(False)
        acc = mkbool(True)
        for x, y in zip(a.e, b.e): acc = binop('BitAnd', acc, deep_eq(x, y))
        return acc
    if isinstance(a, Agg):
        if a.variant != b.variant: return mkbool(False)
        acc = mkbool(True)
        for x, y in zip(a.f, b.f): acc = binop('BitAnd', acc, deep_eq(x, y))
        return acc
    raise Unsupported('eq on %r' % (a,))


# ---------------------------------------------------------------------------------------------- panics
def _panic(ex, st, fr, args, info):
    msg = 'explicit panic'
    for a in args:
        if isinstance(a, Opaque) and a.kind == 'str': msg = a.data
    lib_panic(ex, st, fr, 'panic: %s (%s)' % (msg, info['raw'].split('::')[-1]))


for _n in ('core::panicking::panic', 'core::panicking::panic_fmt', 'std::rt::begin_panic', 'core::panicking::panic_explicit',
           'core::panicking::unreachable_display', 'core::panicking::panic_display', 'std::rt::panic_fmt', 'core::panicking::panic_const::panic_const_rem_by_zero',
           'panic', 'panic_fmt', 'begin_panic', 'core::panicking::assert_failed', 'assert_failed', 'panic_explicit', 'core::option::unwrap_failed',
           'core::panicking::panic_nounwind'):
    S[_n] = _panic


@summary('Arguments::new_const', 'Arguments::new_v1', 'core::fmt::rt::<impl Arguments<\'_>>::new_const', 'Arguments::<\'_>::new_const',
         'core::fmt::Arguments::new_const', 'std::fmt::Arguments::new_const', 'Arguments::<\'_>::from_str', 'Arguments::from_str')
def s_fmt_args(ex, st, fr, args, info):
    return Opaque('fmt_args')


@summary('std::ops::RangeInclusive::new', 'RangeInclusive::new', 'core::ops::RangeInclusive::new')
def s_range_incl_new(ex, st, fr, args, info):
    return Agg('RangeInclusive', None, (args[0], args[1], mkbool(False)))


@summary('Neg::neg')
def s_neg(ex, st, fr, args, info):
    a = val_of(ex, st, args[0])
    if a.ty == 'f64':
        return unop('Neg', a)
    w = WIDTH[a.ty]
    ismin = binop('Eq', a, mkint(-(1 << (w - 1)), a.ty))
    if ismin.conc:
        if ismin.t: lib_panic(ex, st, fr, 'attempt to negate with overflow')
    else:
        bad, model = ex.possible(ismin.t, ex.site(fr) + ':lib')
        if bad:
            ex.record_panic(st, fr, 'library', 'attempt to negate with overflow', model)
            ex.assume_or_end(z3.Not(ismin.t))
    return unop('Neg', a)


# ---------------------------------------------------------------------------------------------- more library surface
# (added so that realistic refactorings of the code under test still execute instead of ending inconclusive)
@summary('slice::chunks_exact', 'slice::chunks', 'slice::chunks_exact_mut', 'slice::chunks_mut')
def s_slice_chunks(ex, st, fr, args, info):
    r = args[0]; k = ex.conc_int(st, args[1])
    if k == 0: lib_panic(ex, st, fr, 'chunk size must be non-zero')
    n = ex.slice_len(st, r); base = r.rng[0] if r.rng else 0
    out = []
    i = 0
    while i + k <= n:
        out.append(Ref(r.loc, (base + i, k))); i += k
    if info['method'] in ('chunks', 'chunks_mut') and i < n:
        out.append(Ref(r.loc, (base + i, n - i)))
    return It('list', tuple(out), 0)


@summary('slice::windows')
def s_slice_windows(ex, st, fr, args, info):
    r = args[0]; k = ex.conc_int(st, args[1])
    n = ex.slice_len(st, r); base = r.rng[0] if r.rng else 0
    return It('list', tuple(Ref(r.loc, (base + i, k)) for i in range(0, max(0, n - k + 1))), 0)


@summary('slice::iter_mut', 'Vec::iter_mut')
def s_iter_mut(ex, st, fr, args, info):
    return s_slice_iter(ex, st, fr, args, info)


@summary('Extend::extend', 'Vec::extend')
def s_extend(ex, st, fr, args, info):
    loc = as_loc(args[0])
    items = it_drain(ex, st, to_iter(ex, st, args[1]))
    items = [ex.deref(st, x) if (isinstance(x, Ref) and 'Extend<&' in info['raw']) else x for x in items]
    v = ex.load(st, loc)
    ex.store(st, loc, Seq(v.kind, v.e + tuple(items)))
    return UNIT


@summary('Vec::extend_from_slice')
def s_extend_from_slice(ex, st, fr, args, info):
    loc = as_loc(args[0]); v = ex.load(st, loc)
    ex.store(st, loc, Seq(v.kind, v.e + tuple(ex.slice_elems(st, args[1]))))
    return UNIT


@summary('Vec::truncate')
def s_truncate(ex, st, fr, args, info):
    loc = as_loc(args[0]); v = ex.load(st, loc); k = ex.conc_int(st, args[1])
    ex.store(st, loc, Seq(v.kind, v.e[:k]))
    return UNIT


@summary('Vec::clear')
def s_clear(ex, st, fr, args, info):
    loc = as_loc(args[0]); v = ex.load(st, loc)
    ex.store(st, loc, Seq(v.kind, ()))
    return UNIT


@summary('Vec::pop')
def s_pop(ex, st, fr, args, info):
    loc = as_loc(args[0]); v = ex.load(st, loc)
    if not v.e: return NONE
    ex.store(st, loc, Seq(v.kind, v.e[:-1]))
    return Some(v.e[-1])


@summary('Vec::resize')
def s_resize(ex, st, fr, args, info):
    loc = as_loc(args[0]); v = ex.load(st, loc); k = ex.conc_int(st, args[1])
    e = v.e[:k] + (args[2],) * max(0, k - len(v.e))
    ex.store(st, loc, Seq(v.kind, e))
    return UNIT


@summary('slice::copy_from_slice', 'slice::clone_from_slice')
def s_copy_from_slice(ex, st, fr, args, info):
    d, s_ = args
    se = ex.slice_elems(st, s_); n = ex.slice_len(st, d)
    if len(se) != n: lib_panic(ex, st, fr, 'source slice length (%d) does not match destination slice length (%d)' % (len(se), n))
    base = d.rng[0] if d.rng else 0
    cur = ex.load(st, d.loc); e = list(cur.e)
    e[base:base + n] = se
    ex.store(st, d.loc, Seq(cur.kind, e))
    return UNIT


@summary('slice::fill')
def s_fill(ex, st, fr, args, info):
    d = args[0]; n = ex.slice_len(st, d); base = d.rng[0] if d.rng else 0
    cur = ex.load(st, d.loc); e = list(cur.e)
    e[base:base + n] = [args[1]] * n
    ex.store(st, d.loc, Seq(cur.kind, e))
    return UNIT


@summary('slice::split_at', 'slice::split_at_mut')
def s_split_at(ex, st, fr, args, info):
    r = args[0]; k = ex.conc_int(st, args[1]); n = ex.slice_len(st, r); base = r.rng[0] if r.rng else 0
    if k > n: lib_panic(ex, st, fr, 'mid > len')
    return Tup(Ref(r.loc, (base, k)), Ref(r.loc, (base + k, n - k)))


@summary('slice::get')
def s_slice_get(ex, st, fr, args, info):
    r = args[0]; n = ex.slice_len(st, r); base = r.rng[0] if r.rng else 0
    if isinstance(args[1], V):
        i = ex.conc_int(st, args[1])
        return Some(Ref(r.loc.sub(base + i))) if 0 <= i < n else NONE
    ix = args[1]
    if isinstance(ix, Agg) and ix.name in ('Range', 'RangeFrom', 'RangeTo', 'RangeInclusive', 'RangeFull'):
        if ix.name == 'Range': a, b = ex.conc_int(st, ix.f[0]), ex.conc_int(st, ix.f[1])
        elif ix.name == 'RangeFrom': a, b = ex.conc_int(st, ix.f[0]), n
        elif ix.name == 'RangeTo': a, b = 0, ex.conc_int(st, ix.f[0])
        elif ix.name == 'RangeInclusive': a, b = ex.conc_int(st, ix.f[0]), ex.conc_int(st, ix.f[1]) + 1
        else: a, b = 0, n
        if a > b or b > n:
            return NONE
        return Some(Ref(r.loc, (base + a, b - a)))
    raise Unsupported('slice::get with %r' % (ix,))


@summary('slice::contains')
def s_contains(ex, st, fr, args, info):
    x = ex.deref(st, args[1])
    acc = mkbool(False)
    for e in ex.slice_elems(st, args[0]):
        acc = binop('BitOr', acc, deep_eq(e, x))
    return acc


@summary('Iterator::fold')
def s_fold(ex, st, fr, args, info):
    acc = args[1]
    for x in it_drain(ex, st, to_iter(ex, st, args[0])):
        acc = ex.call_value(st, args[2], [acc, x])
    return acc


@summary('Iterator::for_each')
def s_for_each(ex, st, fr, args, info):
    for x in it_drain(ex, st, to_iter(ex, st, args[0])):
        ex.call_value(st, args[1], [x])
    return UNIT


@summary('Iterator::any')
def s_any(ex, st, fr, args, info):
    loc = as_loc(args[0])
    items = it_drain(ex, st, to_iter(ex, st, ex.load(st, loc)))
    acc = mkbool(False)
    for x in items:
        acc = binop('BitOr', acc, ex.call_value(st, args[1], [x]))
    ex.store(st, loc, It('list', (), 0))
    return acc


@summary('Iterator::filter_map')
def s_filter_map(ex, st, fr, args, info):
    out = []
    for x in it_drain(ex, st, to_iter(ex, st, args[0])):
        r = ex.call_value(st, args[1], [x])
        if r.variant == 'Some': out.append(r.f[0])
    return It('list', tuple(out), 0)


@summary('Iterator::chain')
def s_chain(ex, st, fr, args, info):
    return It('list', tuple(it_drain(ex, st, to_iter(ex, st, args[0])) + it_drain(ex, st, to_iter(ex, st, args[1]))), 0)


@summary('Iterator::last')
def s_it_last(ex, st, fr, args, info):
    items = it_drain(ex, st, to_iter(ex, st, args[0]))
    return Some(items[-1]) if items else NONE


@summary('Iterator::nth')
def s_it_nth(ex, st, fr, args, info):
    loc = as_loc(args[0]); it = ex.load(st, loc); k = ex.conc_int(st, args[1])
    x = None
    for _ in range(k + 1):
        it, x = it_next(ex, st, it)
        if x is None: break
    ex.store(st, loc, it)
    return NONE if x is None else Some(x)


@summary('Iterator::take_while')
def s_take_while(ex, st, fr, args, info):
    out = []
    for x in it_drain(ex, st, to_iter(ex, st, args[0])):
        cell = st.alloc(x)
        if not ex.conc_bool(st, ex.call_value(st, args[1], [Ref(cell)])): break
        out.append(x)
    return It('list', tuple(out), 0)


@summary('Iterator::position')
def s_position(ex, st, fr, args, info):
    loc = as_loc(args[0]); it = ex.load(st, loc)
    i = 0
    while True:
        it, x = it_next(ex, st, it)
        if x is None:
            ex.store(st, loc, it); return NONE
        if ex.conc_bool(st, ex.call_value(st, args[1], [x])):
            ex.store(st, loc, it); return Some(mkint(i, 'usize'))
        i += 1


@summary('Iterator::find')
def s_find(ex, st, fr, args, info):
    loc = as_loc(args[0]); it = ex.load(st, loc)
    while True:
        it, x = it_next(ex, st, it)
        if x is None:
            ex.store(st, loc, it); return NONE
        cell = st.alloc(x)
        if ex.conc_bool(st, ex.call_value(st, args[1], [Ref(cell)])):
            ex.store(st, loc, it); return Some(x)


@summary('Option::map', 'Result::map')
def s_opt_map(ex, st, fr, args, info):
    v = args[0]
    if isinstance(v, SymResult):
        return SymResult(v.err, ex.call_value(st, args[1], [v.ok]), v.errval, opt=v.opt)
    if v.variant in ('Some', 'Ok'):
        return Agg(v.name, v.variant, (ex.call_value(st, args[1], [v.f[0]]),))
    return v


@summary('Result::map_err')
def s_map_err(ex, st, fr, args, info):
    v = args[0]
    if isinstance(v, Agg) and v.variant == 'Err':
        return Err(ex.call_value(st, args[1], [v.f[0]]))
    return v


@summary('Option::unwrap_or', 'Result::unwrap_or')
def s_unwrap_or(ex, st, fr, args, info):
    v = args[0]
    return v.f[0] if v.variant in ('Some', 'Ok') else args[1]


@summary('Option::ok_or')
def s_ok_or(ex, st, fr, args, info):
    v = args[0]
    if isinstance(v, SymResult) and v.opt:
        return SymResult(v.err, v.ok, args[1])
    return Ok(v.f[0]) if v.variant == 'Some' else Err(args[1])


@summary('Result::ok')
def s_res_ok(ex, st, fr, args, info):
    v = args[0]
    return Some(v.f[0]) if v.variant == 'Ok' else NONE


@summary('Result::is_ok')
def s_is_ok(ex, st, fr, args, info): return mkbool(ex.deref(st, args[0]).variant == 'Ok')
@summary('Result::is_err')
def s_is_err(ex, st, fr, args, info): return mkbool(ex.deref(st, args[0]).variant == 'Err')


@summary('int::to_be_bytes', 'int::to_le_bytes')
def s_to_bytes(ex, st, fr, args, info):
    a = args[0]; w = WIDTH[a.ty]
    out = []
    for k in range(w // 8 - 1, -1, -1):
        out.append(mkint((a.t >> (8 * k)) & 255, 'u8') if a.conc else lift(simp(z3.Extract(8 * k + 7, 8 * k, a.t)), 'u8'))
    if info['method'] == 'to_le_bytes': out.reverse()
    return Seq('arr', out)


@summary('int::pow')
def s_pow(ex, st, fr, args, info):
    e = ex.conc_int(st, args[1]); acc = mkint(1, args[0].ty)
    for _ in range(e):
        acc = S['Mul::mul'](ex, st, fr, [acc, args[0]], info)
    return acc


@summary('int::count_ones', 'int::leading_zeros', 'int::trailing_zeros')
def s_bitcount(ex, st, fr, args, info):
    w = WIDTH[args[0].ty]
    if not args[0].conc:
        # symbolic operand: the count as a term (an if-chain over the bits), so that a path forks over at most w+1 results, not 2^w operands
        t = args[0].t
        bit = lambda k: z3.Extract(k, k, t) == 1
        if info['method'] == 'count_ones':
            r = z3.BitVecVal(0, 32)
            for k in range(w): r = r + z3.If(bit(k), z3.BitVecVal(1, 32), z3.BitVecVal(0, 32))
        elif info['method'] == 'leading_zeros':
            r = z3.BitVecVal(w, 32)
            for k in range(w): r = z3.If(bit(k), z3.BitVecVal(w - 1 - k, 32), r)
        else:
            r = z3.BitVecVal(w, 32)
            for k in range(w - 1, -1, -1): r = z3.If(bit(k), z3.BitVecVal(k, 32), r)
        return lift(simp(r), 'u32')
    a = ex.conc_int(st, args[0]); u = a & ((1 << w) - 1)
    if info['method'] == 'count_ones': return mkint(bin(u).count('1'), 'u32')
    if info['method'] == 'leading_zeros': return mkint(w - u.bit_length(), 'u32')
    return mkint((u & -u).bit_length() - 1 if u else w, 'u32')


@summary('int::min', 'int::max')
def s_int_minmax(ex, st, fr, args, info):
    return s_minmax(ex, st, fr, args, info)


@summary('int::checked_add', 'int::checked_sub', 'int::checked_mul')
def s_checked_arith(ex, st, fr, args, info):
    from .interp import ovf_op
    r = ovf_op({'checked_add': 'Add', 'checked_sub': 'Sub', 'checked_mul': 'Mul'}[info['method']], args[0], args[1])
    if ex.conc_bool(st, r.f[1]): return NONE
    return Some(r.f[0])


@summary('int::saturating_sub')
def s_sat_sub(ex, st, fr, args, info):
    a, b = args
    if signed(a.ty): raise Unsupported('signed saturating_sub')
    lt = binop('Lt', a, b)
    if lt.conc: return mkint(0, a.ty) if lt.t else binop('Sub', a, b)
    return V(z3.If(lt.t, z3.BitVecVal(0, WIDTH[a.ty]), bv(a) - bv(b)), a.ty)


@summary('int::div_ceil')
def s_div_ceil(ex, st, fr, args, info):
    a, b = ex.conc_int(st, args[0]), ex.conc_int(st, args[1])
    return mkint(-(-a // b), args[0].ty)


@summary('int::is_power_of_two')
def s_is_pow2(ex, st, fr, args, info):
    a = ex.conc_int(st, args[0]); return mkbool(a > 0 and a & (a - 1) == 0)


@summary('core::mem::swap', 'std::mem::swap')
def s_swap(ex, st, fr, args, info):
    a, b = as_loc(args[0]), as_loc(args[1])
    x, y = ex.load(st, a), ex.load(st, b)
    ex.store(st, a, y); ex.store(st, b, x)
    return UNIT


@summary('core::mem::replace', 'std::mem::replace')
def s_replace(ex, st, fr, args, info):
    a = as_loc(args[0]); x = ex.load(st, a); ex.store(st, a, args[1]); return x


@summary('core::mem::take', 'std::mem::take')
def s_take_mem(ex, st, fr, args, info):
    a = as_loc(args[0]); x = ex.load(st, a)
    if isinstance(x, Seq): ex.store(st, a, Seq(x.kind, ()))
    else: raise Unsupported('mem::take of %r' % (x,))
    return x


@summary('From::from')
def s_from2(ex, st, fr, args, info):
    raw = info['raw']
    m = re.match(r'<(\w+) as From<(\w+)>>', raw)
    if m and m.group(1) in WIDTH and (m.group(2) in WIDTH or m.group(2) == 'bool'):
        return cast_int(args[0], m.group(1))
    if raw.startswith('<Vec<') and isinstance(args[0], Seq):
        return Seq('vec', args[0].e)
    if raw.startswith('<Vec<') and isinstance(args[0], Ref):
        return Seq('vec', ex.slice_elems(st, args[0]))
    return args[0]
S['Into::into'] = s_from2

from . import summaries2  # noqa: E402,F401  (registers further summaries into S)

"""mirsym: path-wise symbolic executor for rustc MIR (engine M).

One incremental z3 solver follows the depth-first exploration (push at a fork, pop on return). Every MIR `assert`
terminator and every summarised panicking library call is an obligation: path-condition AND NOT(cond) must be unsat,
otherwise the model is a counterexample input. See DESIGN.md §2.3."""
import re, time
import z3
from .values import *
from .mir import split_top, match_close, Program

PENDING = object()


class PathEnd(Exception):
    """current path ends (definite panic, infeasible, or user abort)"""


class ForkOn(Exception):
    """a summary needs a concrete value for a symbolic term: fork over its feasible values"""

    def __init__(self, v, cap=300):
        self.v = v; self.cap = cap


class ForkBool(Exception):
    """a summary needs to branch on a symbolic boolean"""

    def __init__(self, cond):
        self.cond = cond


class Frame:
    __slots__ = ('fn', 'locals', 'bb', 'pc', 'fid', 'env', 'ret_dest', 'ret_bb', 'sync')

    def __init__(self, fn, fid, env):
        self.fn = fn; self.locals = {}; self.bb = 'bb0'; self.pc = 0; self.fid = fid; self.env = env
        self.ret_dest = None; self.ret_bb = None; self.sync = False

    def clone(self):
        f = Frame(self.fn, self.fid, self.env)
        f.locals = dict(self.locals); f.bb = self.bb; f.pc = self.pc; f.ret_dest = self.ret_dest; f.ret_bb = self.ret_bb; f.sync = self.sync
        return f

    def jump(self, bb):
        self.bb = bb; self.pc = 0


_MISSING = object()


class State:
    __slots__ = ('stack', 'heap', 'ncell', 'nfid', 'env', 'depth', 'trace', 'journal')

    def __init__(self):
        self.stack = []; self.heap = {}; self.ncell = 0; self.nfid = 0; self.env = {}; self.depth = 0; self.trace = ()
        self.journal = None           # undo log of writes made while a terminator executes (see Exec.step)

    def jset(self, d, k, v):
        """d[k] = v, remembered in the undo log when one is open"""
        if self.journal is not None:
            self.journal.append((d, k, d.get(k, _MISSING)))
        d[k] = v

    def rollback(self, j):
        for d, k, old in reversed(j):
            if old is _MISSING:
                d.pop(k, None)
            else:
                d[k] = old

    def clone(self):
        s = State()
        s.stack = [f.clone() for f in self.stack]
        s.heap = dict(self.heap); s.ncell = self.ncell; s.nfid = self.nfid; s.env = dict(self.env); s.depth = self.depth
        s.trace = self.trace; s.journal = None
        return s

    def frame(self, fid):
        for f in reversed(self.stack):
            if f.fid == fid:
                return f
        raise KeyError('dangling frame %s' % fid)

    def alloc(self, val):
        self.ncell += 1
        self.jset(self.heap, self.ncell, val)
        return Loc(('H', self.ncell))


# ------------------------------------------------------------------------------------------------ scalar operations
def _trunc_div(a, b):
    q = abs(a) // abs(b)
    return q if (a < 0) == (b < 0) else -q


def binop(op, a, b):
    ty = a.ty
    if ty == 'f64' or (isinstance(a.t, float)):
        return fbinop(op, a, b)
    if ty == 'bool':
        if a.conc and b.conc:
            x, y = bool(a.t), bool(b.t)
            r = {'BitOr': x | y, 'BitAnd': x & y, 'BitXor': x ^ y, 'Eq': x == y, 'Ne': x != y,
                 'Lt': x < y, 'Le': x <= y, 'Gt': x > y, 'Ge': x >= y}[op]
            return mkbool(r)
        x, y = bl(a), bl(b)
        r = {'BitOr': lambda: z3.Or(x, y), 'BitAnd': lambda: z3.And(x, y), 'BitXor': lambda: z3.Xor(x, y),
             'Eq': lambda: x == y, 'Ne': lambda: x != y}[op]()
        return lift(simp(r), 'bool')
    w = WIDTH[ty]; sg = signed(ty)
    if op in ('Shl', 'Shr', 'ShlUnchecked', 'ShrUnchecked'):
        op = op[:3]
        if a.conc and b.conc:
            sh = b.t % w if b.t >= 0 else (b.t & (w - 1))
            if op == 'Shl':
                return mkint(a.t << sh, ty)
            return mkint(a.t >> sh, ty) if sg else mkint((a.t & ((1 << w) - 1)) >> sh, ty)
        bt = bv(b); bw = bt.size()
        bt = z3.Extract(w - 1, 0, bt) if bw > w else (z3.ZeroExt(w - bw, bt) if bw < w else bt)
        bt = bt & (w - 1)
        at = bv(a)
        r = at << bt if op == 'Shl' else ((at >> bt) if sg else z3.LShR(at, bt))
        return lift(simp(r), ty)
    if a.conc and b.conc:
        x, y = a.t, b.t
        if op in ('Add', 'AddUnchecked'): return mkint(x + y, ty)
        if op in ('Sub', 'SubUnchecked'): return mkint(x - y, ty)
        if op in ('Mul', 'MulUnchecked'): return mkint(x * y, ty)
        if op == 'Div': return mkint(_trunc_div(x, y), ty)
        if op == 'Rem': return mkint(x - y * _trunc_div(x, y), ty)
        if op == 'BitOr': return mkint(x | y, ty)
        if op == 'BitAnd': return mkint(x & y, ty)
        if op == 'BitXor': return mkint(x ^ y, ty)
        if op == 'Eq': return mkbool(x == y)
        if op == 'Ne': return mkbool(x != y)
        if op == 'Lt': return mkbool(x < y)
        if op == 'Le': return mkbool(x <= y)
        if op == 'Gt': return mkbool(x > y)
        if op == 'Ge': return mkbool(x >= y)
        raise Unsupported('binop ' + op)
    x, y = bv(a), bv(b)
    if op in ('Add', 'AddUnchecked'): r = x + y
    elif op in ('Sub', 'SubUnchecked'): r = x - y
    elif op in ('Mul', 'MulUnchecked'): r = x * y
    elif op == 'Div': r = (x / y) if sg else z3.UDiv(x, y)
    elif op == 'Rem': r = z3.SRem(x, y) if sg else z3.URem(x, y)
    elif op == 'BitOr': r = x | y
    elif op == 'BitAnd': r = x & y
    elif op == 'BitXor': r = x ^ y
    else:
        if op == 'Eq': r = x == y
        elif op == 'Ne': r = x != y
        elif op == 'Lt': r = (x < y) if sg else z3.ULT(x, y)
        elif op == 'Le': r = (x <= y) if sg else z3.ULE(x, y)
        elif op == 'Gt': r = (x > y) if sg else z3.UGT(x, y)
        elif op == 'Ge': r = (x >= y) if sg else z3.UGE(x, y)
        else: raise Unsupported('binop ' + op)
        return lift(simp(r), 'bool')
    return lift(simp(r), ty)


def sigbits(t):
    """number of possibly non-zero low bits of a bit-vector term (syntactic: zero extension / concat with zero / literal)"""
    w = t.size()
    if z3.is_bv_value(t):
        return t.as_long().bit_length()
    k = t.decl().kind()
    if k == z3.Z3_OP_ZERO_EXT:
        return w - t.params()[0]
    if k == z3.Z3_OP_CONCAT:
        first = t.arg(0)
        if z3.is_bv_value(first) and first.as_long() == 0:
            return w - first.size()
    return w


def ovf_op(op, a, b):
    ty = a.ty; w = WIDTH[ty]; sg = signed(ty)
    if a.conc and b.conc:
        full = {'Add': a.t + b.t, 'Sub': a.t - b.t, 'Mul': a.t * b.t}[op]
        res = norm(full, ty)
        return Tup(V(res, ty), mkbool(res != full))
    x, y = bv(a), bv(b)
    ext = (lambda t: z3.SignExt(w, t)) if sg else (lambda t: z3.ZeroExt(w, t))
    if op == 'Mul':
        if not sg and sigbits(x) + sigbits(y) <= w:
            return Tup(lift(simp(x * y), ty), mkbool(False))      # zero-extended operands: the product fits by construction
        res = x * y
        o = z3.Not(z3.And(z3.BVMulNoOverflow(x, y, sg), z3.BVMulNoUnderflow(x, y))) if sg else z3.Not(z3.BVMulNoOverflow(x, y, False))
        return Tup(lift(simp(res), ty), lift(simp(o), 'bool'))
    else:
        e1 = (lambda t: z3.SignExt(1, t)) if sg else (lambda t: z3.ZeroExt(1, t))
        X, Y = e1(x), e1(y); full = X + Y if op == 'Add' else X - Y
        ext = e1
    res = z3.Extract(w - 1, 0, full)
    o = ext(res) != full
    return Tup(lift(simp(res), ty), lift(simp(o), 'bool'))


def unop(op, a):
    if op == 'Not':
        if a.ty == 'bool':
            return mkbool(not a.t) if a.conc else lift(simp(z3.Not(a.t)), 'bool')
        return mkint(~a.t, a.ty) if a.conc else lift(simp(~a.t), a.ty)
    if op == 'Neg':
        if a.ty == 'f64':
            return V(-a.t, 'f64') if a.conc else V(z3.fpNeg(a.t), 'f64')
        return mkint(-a.t, a.ty) if a.conc else lift(simp(-a.t), a.ty)
    raise Unsupported('unop ' + op)


def cast_int(a, ty):
    if a.ty == 'bool':
        if a.conc: return mkint(int(a.t), ty)
        return V(z3.If(a.t, z3.BitVecVal(1, WIDTH[ty]), z3.BitVecVal(0, WIDTH[ty])), ty)
    if ty == 'bool':
        raise Unsupported('int to bool cast')
    if a.ty == 'char':
        a = V(a.t, 'u32')
    if a.conc:
        return mkint(a.t, ty)
    w0, w1 = WIDTH[a.ty], WIDTH[ty]
    t = a.t
    if w1 < w0: t = z3.Extract(w1 - 1, 0, t)
    elif w1 > w0: t = z3.SignExt(w1 - w0, t) if signed(a.ty) else z3.ZeroExt(w1 - w0, t)
    return lift(simp(t), ty)


RNE = None


def rne():
    global RNE
    if RNE is None: RNE = z3.RNE()
    return RNE


def fbinop(op, a, b):
    if a.conc and b.conc:
        x, y = a.t, b.t
        if op == 'Add': return V(x + y, 'f64')
        if op == 'Sub': return V(x - y, 'f64')
        if op == 'Mul': return V(x * y, 'f64')
        if op == 'Div': return V(x / y, 'f64')
        if op == 'Lt': return mkbool(x < y)
        if op == 'Le': return mkbool(x <= y)
        if op == 'Gt': return mkbool(x > y)
        if op == 'Ge': return mkbool(x >= y)
        if op == 'Eq': return mkbool(x == y)
        if op == 'Ne': return mkbool(x != y)
        raise Unsupported('fbinop ' + op)
    x, y = fp(a), fp(b)
    if op == 'Add': return V(z3.fpAdd(rne(), x, y), 'f64')
    if op == 'Sub': return V(z3.fpSub(rne(), x, y), 'f64')
    if op == 'Mul': return V(z3.fpMul(rne(), x, y), 'f64')
    if op == 'Div': return V(z3.fpDiv(rne(), x, y), 'f64')
    if op == 'Lt': return V(z3.fpLT(x, y), 'bool')
    if op == 'Le': return V(z3.fpLEQ(x, y), 'bool')
    if op == 'Gt': return V(z3.fpGT(x, y), 'bool')
    if op == 'Ge': return V(z3.fpGEQ(x, y), 'bool')
    if op == 'Eq': return V(z3.fpEQ(x, y), 'bool')
    if op == 'Ne': return V(z3.Not(z3.fpEQ(x, y)), 'bool')
    raise Unsupported('fbinop ' + op)


def float_to_int(a, ty):
    """Rust `as`: saturating, NaN -> 0"""
    w = WIDTH[ty]; sg = signed(ty)
    lo = -(1 << (w - 1)) if sg else 0
    hi = (1 << (w - 1)) - 1 if sg else (1 << w) - 1
    if a.conc:
        x = a.t
        if x != x: return mkint(0, ty)
        if x <= lo: return mkint(lo, ty)
        if x >= hi: return mkint(hi, ty)
        return mkint(int(x), ty)
    x = a.t
    conv = z3.fpToSBV(z3.RTZ(), x, z3.BitVecSort(w)) if sg else z3.fpToUBV(z3.RTZ(), x, z3.BitVecSort(w))
    flo = z3.FPVal(float(lo), z3.Float64()); fhi = z3.FPVal(float(hi), z3.Float64())
    r = z3.If(z3.fpIsNaN(x), z3.BitVecVal(0, w),
              z3.If(z3.fpLEQ(x, flo), z3.BitVecVal(lo, w),
                    z3.If(z3.fpGEQ(x, fhi), z3.BitVecVal(hi, w), conv)))
    return V(r, ty)


def int_to_float(a):
    if a.conc:
        return V(float(a.t), 'f64')
    t = bv(a)
    return V(z3.fpSignedToFP(rne(), t, z3.Float64()) if signed(a.ty) else z3.fpUnsignedToFP(rne(), t, z3.Float64()), 'f64')


# ------------------------------------------------------------------------------------------------ the executor
class Exec:
    def __init__(self, prog, summaries, overrides=None, tables=None):
        self.prog = prog
        self.summ = summaries
        self.over = overrides or {}
        self.tables = tables or {}           # struct/enum layouts
        self.solver = z3.Solver()
        self.solver.set('timeout', 1200000)      # an incremental query that runs longer comes back unknown -> Unsupported (undecided), never hangs a check
        self.inc_fast_ms = 4000; self.n_oneshot = 0; self.inc_stalls = 0
        self.nq = 0; self.solver_s = 0.0; self.aux = None; self.nq_aux = 0
        self.defer = False; self.deferred = []; self.nodefer_sites = set(); self.n_deferred = 0
        self.pc = [[]]; self._vars = {}; self._local_cache = {}; self._keep = []; self.nq_cached = 0
        self.sq_abstract = False; self.n_sq = 0; self.abstract_rem = False; self.n_rem = 0
        self.prod_abstract = False; self.products = {}
        self.local_timeout_ms = 1200000       # a one-shot query that takes longer is reported as undecided (Unsupported), never waited for forever
        self.use_intervals = False; self.bounds = {}; self._iv = {}
        self.paths = 0; self.steps = 0
        self.panics = []                      # (kind, msg, site, model_inputs, extra)
        self.inputs = []                      # (name, z3 var)
        self.on_return = None
        self.on_panic_path = None
        self.const_cache = {}
        self.max_paths = None
        self.float_lazy = False
        self.deadline = None
        self.fn_steps = {}
        self.unsupported = []
        self._parse_cache = {}
        self.assert_sites = {}                # site -> [n_checked, n_violable]
        self.user = {}

    # ---------------------------------------------------------------- solver plumbing
    def _decide(self, extra, want_model):
        """sat(path condition AND extra) -> (z3 result, model or None). The incremental core follows the path cheaply but can be orders of
        magnitude slower than z3's one-shot pipeline on arithmetic-heavy conditions: it gets a short budget, then the same question
        (whole path condition) goes to a fresh solver; after three stalls in a row this executor asks the fresh solver first."""
        r = z3.unknown; m = None
        if self.inc_stalls < 3:
            if extra:
                self.solver.push()
                for e in extra: self.solver.add(e)   # temporary: not mirrored
            self.solver.set('timeout', self.inc_fast_ms)
            try:
                r = self.solver.check()
            finally:
                self.solver.set('timeout', 1200000)       # direct users of the incremental solver (value enumeration, oracles) keep the long budget
            if r == z3.sat and want_model:
                m = self.solver.model()
            if extra:
                self.solver.pop()
            self.inc_stalls = self.inc_stalls + 1 if r == z3.unknown else 0
        if r == z3.unknown:
            self.n_oneshot += 1
            one = z3.Solver(); one.set('timeout', self.local_timeout_ms)
            for lvl in self.pc:
                for c in lvl: one.add(c)
            for e in extra: one.add(e)
            r = one.check()
            if r == z3.sat and want_model:
                m = one.model()
            if r == z3.unknown:
                raise Unsupported('solver returned unknown: ' + one.reason_unknown())
        return r, m

    def check(self, *extra):
        self.nq += 1
        t0 = time.time()
        try:
            r, m = self._decide(extra, bool(extra))
        finally:
            self.solver_s += time.time() - t0
        return r == z3.sat, m

    # path-condition mirror (for cone-of-influence queries) ---------------------------------------
    def push(self):
        self.solver.push(); self.pc.append([])

    def pop(self):
        self.solver.pop(); self.pc.pop()

    def assume(self, cond):
        # conjunctions are stored piecewise so that cone-of-influence queries stay local
        todo = [cond]
        while todo:
            c = todo.pop()
            if z3.is_and(c):
                todo.extend(c.children()); continue
            if z3.is_not(c) and z3.is_or(c.arg(0)):
                todo.extend(z3.Not(x) for x in c.arg(0).children()); continue
            if z3.is_true(c):
                continue
            self.solver.add(c); self.pc[-1].append(c); self._keep.append(c)   # kept alive: AST ids key the local-query cache

    def assume_or_end(self, cond):
        """after a violable panic obligation has been recorded: continue on the non-panicking side if there is one, else the path ends"""
        ok, _ = self.check(cond)
        if not ok:
            raise PathEnd()
        self.assume(cond)

    def vars_of(self, t):
        k = t.get_id()
        r = self._vars.get(k)
        if r is not None:
            return r
        out = set(); seen = set(); todo = [t]
        while todo:
            x = todo.pop()
            i = x.get_id()
            if i in seen: continue
            seen.add(i)
            c = self._vars.get(i)
            if c is not None:
                out |= c; continue
            if z3.is_const(x):
                if x.decl().kind() == z3.Z3_OP_UNINTERPRETED:
                    out.add(x.decl().name())
            else:
                todo.extend(x.children())
        r = frozenset(out)
        self._vars[k] = r
        return r

    def check_local(self, cond):
        """sat(path condition AND cond), decided on the cone of influence of cond's variables only: a fresh solver with
        just the path constraints that (transitively) share variables with cond. Sound because the remaining constraints
        are over disjoint variables and the whole path condition is known satisfiable."""
        vs = set(self.vars_of(cond))
        cons = [c for lvl in self.pc for c in lvl]
        cvars = [self.vars_of(c) for c in cons]
        picked = [False] * len(cons)
        changed = True
        while changed:
            changed = False
            for i, cv in enumerate(cvars):
                if not picked[i] and cv & vs:
                    picked[i] = True; vs |= cv; changed = True
        key = (cond.get_id(), tuple(sorted(cons[i].get_id() for i in range(len(cons)) if picked[i])))
        hit = self._local_cache.get(key)
        if hit is not None:
            self.nq_cached += 1
            return hit
        self.nq += 1
        t0 = time.time()
        s = z3.Solver()
        s.set('timeout', self.local_timeout_ms)
        for i, c in enumerate(cons):
            if picked[i]: s.add(c)
        s.add(cond)
        r = s.check()
        self.solver_s += time.time() - t0
        if r == z3.unknown:
            raise Unsupported('solver unknown (local)')
        res = (r == z3.sat), (s.model() if r == z3.sat else None)
        self._local_cache[key] = res
        self._keep.append(cond)          # keep the AST alive so that its id is not reused
        return res

    def possible(self, cond, site=None):
        """can `cond` hold on the current path? A stand-alone query (no path condition) is tried first: if `cond` is
        unsatisfiable on its own it is unsatisfiable on every path, and that query is tiny."""
        if self.defer and site is not None and site not in self.nodefer_sites:
            self.deferred.append((cond, site)); self.n_deferred += 1
            return False, None
        if self.aux is None:
            self.aux = z3.Solver()
        self.nq_aux += 1
        t0 = time.time()
        one = z3.Solver(); one.add(cond); r = one.check()
        self.solver_s += time.time() - t0
        if r == z3.unsat:
            return False, None
        # one-shot solver on the cone of influence: z3's bit-blasting tactic is far better at arithmetic obligations
        # than the incremental core that follows the path
        return self.check_local(cond)

    def flush_deferred(self, batch=24):
        """discharge the deferred stand-alone obligations in batches; returns the set of sites whose obligation is
        not valid on its own (these must be re-checked under their path condition: rerun with nodefer_sites)"""
        if self.aux is None:
            self.aux = z3.Solver()
        failing = set()
        items = self.deferred; self.deferred = []

        def go(lst):
            if not lst:
                return
            self.nq_aux += 1
            t0 = time.time()
            one = z3.Solver()                      # one-shot: bit-blasting tactic, much faster than the incremental core
            one.add(z3.Or(*[c for c, _ in lst])); r = one.check()
            self.solver_s += time.time() - t0
            if r == z3.unsat:
                return
            if r == z3.unknown:
                raise Unsupported('solver unknown on deferred batch')
            if len(lst) == 1:
                failing.add(lst[0][1]); return
            # all items of an already failing site need no further splitting
            rest = [x for x in lst if x[1] not in failing]
            if len(rest) != len(lst):
                go(rest); return
            h = len(lst) // 2
            go(lst[:h]); go([x for x in lst[h:] if x[1] not in failing])
        for i in range(0, len(items), batch):
            go([x for x in items[i:i + batch] if x[1] not in failing])
        return failing

    def interval(self, v):
        """unsigned value range [lo, hi] of a scalar (python ints), from self.bounds (variables) by structural recursion"""
        if v.conc:
            x = int(v.t) & ((1 << WIDTH.get(v.ty, 64)) - 1)
            return (x, x)
        return self._interval(v.t)

    def _interval(self, t):
        k = t.get_id()
        r = self._iv.get(k)
        if r is not None:
            return r
        w = t.size() if z3.is_bv(t) else 1
        full = (0, (1 << w) - 1)
        r = full
        if z3.is_bv_value(t):
            r = (t.as_long(), t.as_long())
        elif z3.is_const(t) and t.decl().kind() == z3.Z3_OP_UNINTERPRETED:
            r = self.bounds.get(t.decl().name(), full)
        else:
            kind = t.decl().kind()
            ch = t.children()
            if kind == z3.Z3_OP_BADD:
                lo = sum(self._interval(c)[0] for c in ch); hi = sum(self._interval(c)[1] for c in ch)
                r = (lo, hi) if hi <= full[1] else full
            elif kind == z3.Z3_OP_BSUB and len(ch) == 2:
                (la, ha), (lb, hb) = self._interval(ch[0]), self._interval(ch[1])
                r = (la - hb, ha - lb) if la - hb >= 0 else full
            elif kind == z3.Z3_OP_BMUL:
                lo = hi = 1
                for c in ch:
                    a, b = self._interval(c); lo *= a; hi *= b
                r = (lo, hi) if hi <= full[1] else full
            elif kind == z3.Z3_OP_ZERO_EXT:
                r = self._interval(ch[0])
            elif kind == z3.Z3_OP_CONCAT and z3.is_bv_value(ch[0]) and ch[0].as_long() == 0 and len(ch) == 2:
                r = self._interval(ch[1])
            elif kind == z3.Z3_OP_ITE:
                a, b = self._interval(ch[1]), self._interval(ch[2]); r = (min(a[0], b[0]), max(a[1], b[1]))
            elif kind in (z3.Z3_OP_BUREM, z3.Z3_OP_BUREM_I) and z3.is_bv_value(ch[1]) and ch[1].as_long() > 0:
                r = (0, min(ch[1].as_long() - 1, self._interval(ch[0])[1]))
            elif kind == z3.Z3_OP_EXTRACT:
                hi_, lo_ = t.params()
                a = self._interval(ch[0])
                if lo_ == 0 and a[1] < (1 << (hi_ + 1)): r = a
            elif kind == z3.Z3_OP_BAND and len(ch) == 2:
                r = (0, min(self._interval(ch[0])[1], self._interval(ch[1])[1]))
            elif kind == z3.Z3_OP_BLSHR and z3.is_bv_value(ch[1]):
                a = self._interval(ch[0]); sft = ch[1].as_long(); r = (a[0] >> sft, a[1] >> sft)
        self._iv[k] = r
        self._keep.append(t)
        return r

    def abstract_product(self, a, b):
        """cut point for a product of two symbolic unsigned operands whose ranges are known and whose product fits the type: the
        product is replaced by a fresh variable p with lo_a*lo_b <= p <= hi_a*hi_b (a sound over-approximation: whatever is shown
        for every p in the range holds for the real product). The pairing is recorded in self.products for the oracle."""
        (la, ha), (lb, hb) = self.interval(a), self.interval(b)
        w = WIDTH[a.ty]
        if ha * hb >= (1 << w):
            return None
        key = tuple(sorted((a.t.get_id(), b.t.get_id())))
        hit = self.products.get(key)
        if hit is not None:
            return V(hit[0], a.ty)
        name = 'prod_%d' % (len(self.products) + 1)
        pv = z3.BitVec(name, w)
        self._keep.extend([a.t, b.t])
        self.products[key] = (pv, a.t, b.t)
        self.bounds[name] = (la * lb, ha * hb)
        self.assume(z3.And(z3.UGE(pv, z3.BitVecVal(la * lb, w)), z3.ULE(pv, z3.BitVecVal(ha * hb, w))))
        return V(pv, a.ty)

    def abstract_square(self, st, a):
        """x*x for a symbolic x is replaced by a fresh variable sq with 0 <= sq <= 2^(2k), where 2^k bounds |x| on this
        path (k found by solver queries). Sound over-approximation of the product; the pairing (x, sq) is recorded in
        self.squares so that an oracle can tie sq to the value it expects to be squared."""
        w = WIDTH[a.ty]
        key = a.t.get_id()
        squares = st.env.get('squares', ())
        for (kid, x, sq, k) in squares:
            if kid == key:
                return Tup(V(sq, a.ty), mkbool(False))
        k = None
        for cand in (13, 14, 15, 16, 24, 31):
            if 2 * cand + 1 > w: break
            lim = z3.BitVecVal(1 << cand, w)
            ok, _ = self.check_local(z3.Or(a.t >= lim, a.t <= -lim) if signed(a.ty) else z3.UGE(a.t, lim))
            if not ok:
                k = cand; break
        if k is None:
            return ovf_op('Mul', a, a)
        self.n_sq += 1
        self._keep.append(a.t)
        sq = z3.BitVec('sq_%d' % key, w)
        st.env['squares'] = squares + ((key, a.t, sq, k),)
        self.assume(z3.And(sq >= 0, sq <= z3.BitVecVal(1 << (2 * k), w)) if signed(a.ty) else z3.ULE(sq, z3.BitVecVal(1 << (2 * k), w)))
        return Tup(V(sq, a.ty), mkbool(False))

    def model(self):
        self.nq += 1
        t0 = time.time()
        try:
            r, m = self._decide((), True)
        finally:
            self.solver_s += time.time() - t0
        if r != z3.sat:
            raise Unsupported('path condition not sat when a model was requested: %s' % r)
        return m

    def new_input(self, name, ty):
        if ty == 'bool':
            v = z3.Bool(name)
        elif ty == 'f64':
            v = z3.FP(name, z3.Float64())
        else:
            v = z3.BitVec(name, WIDTH[ty])
        if not any(n == name for n, _, _ in self.inputs):
            self.inputs.append((name, v, ty))
        return V(v, ty)

    def model_inputs(self, m):
        out = {}
        for name, v, ty in self.inputs:
            x = m.eval(v, model_completion=True)
            if ty == 'bool':
                out[name] = z3.is_true(x)
            elif ty == 'f64':
                out[name] = fp_to_py(x)
            else:
                out[name] = norm(x.as_long(), ty)
        return out

    def eval_int(self, m, v):
        if v.conc: return v.t
        x = m.eval(v.t, model_completion=True)
        if v.ty == 'bool': return z3.is_true(x)
        return norm(x.as_long(), v.ty)

    def conc_int(self, st, v, cap=300):
        """concrete value of v on this path; forks the path if several values are feasible"""
        if v.conc:
            return v.t
        t = simp(v.t)
        if z3.is_bv_value(t):
            return norm(t.as_long(), v.ty)
        m = self.model()
        val = m.eval(t, model_completion=True)
        ok, _ = self.check(t != val)
        if not ok:
            return norm(val.as_long(), v.ty)
        raise ForkOn(V(t, v.ty), cap)

    def conc_bool(self, st, v):
        if v.conc:
            return bool(v.t)
        c = simp(v.t)
        if z3.is_true(c): return True
        if z3.is_false(c): return False
        t, _ = self.check(c)
        if not t: return False
        f, _ = self.check(z3.Not(c))
        if not f: return True
        raise ForkBool(c)

    # ---------------------------------------------------------------- memory
    def load(self, st, loc):
        r = loc.root
        if r[0] == 'L':
            fr_ = st.frame(r[1])
            if r[2] not in fr_.locals:
                # a non-capturing closure is a zero-sized local that the MIR never assigns (`let f = |v| ..; f(x)` borrows `_k` directly)
                t = (fr_.fn.types.get(r[2]) or '').strip()
                if t.startswith('{closure@'):
                    fr_.locals[r[2]] = Closure(self.prog.closures[t].name if t in self.prog.closures else t, ())
            v = fr_.locals[r[2]]
        elif r[0] == 'H':
            v = st.heap[r[1]]
        else:
            v = r[1]
        for i in loc.path:
            v = self._proj(v, i)
        return v

    @staticmethod
    def _proj(v, i):
        if isinstance(v, Agg):
            return v.f[i]
        if isinstance(v, Seq):
            return v.e[i]
        if isinstance(v, Closure):
            return v.caps[i]
        if isinstance(v, Ref):
            return v          # Box / Unique / NonNull wrappers are transparent
        raise Unsupported('projection %r of %r' % (i, v))

    def store(self, st, loc, val):
        r = loc.root
        if r[0] == 'T':
            raise Unsupported('store to temporary')
        if not loc.path:
            if r[0] == 'L': st.jset(st.frame(r[1]).locals, r[2], val)
            else: st.jset(st.heap, r[1], val)
            return
        if r[0] == 'L':
            fr = st.frame(r[1]); st.jset(fr.locals, r[2], self._upd(fr.locals[r[2]], loc.path, val))
        else:
            st.jset(st.heap, r[1], self._upd(st.heap[r[1]], loc.path, val))

    def _upd(self, v, path, val):
        if not path:
            return val
        i = path[0]
        if isinstance(v, Agg):
            return v.with_field(i, self._upd(v.f[i], path[1:], val))
        if isinstance(v, Seq):
            e = list(v.e); e[i] = self._upd(e[i], path[1:], val)
            return Seq(v.kind, e)
        if isinstance(v, Closure):
            c = list(v.caps); c[i] = self._upd(c[i], path[1:], val)
            return Closure(v.fn, c)
        if isinstance(v, Opaque) and v.kind == 'uninit':
            return val        # MaybeUninit / ManuallyDrop / MaybeDangling wrappers are transparent
        raise Unsupported('update projection of %r' % (v,))

    def deref(self, st, ref):
        """value a reference points to (slices give a Seq view)"""
        if not isinstance(ref, Ref):
            raise Unsupported('deref of non-ref %r' % (ref,))
        v = self.load(st, ref.loc)
        if ref.rng is not None:
            s, n = ref.rng
            if isinstance(v, Seq) and (s != 0 or n != len(v.e)):
                return Seq('arr', v.e[s:s + n])
        return v

    def slice_elems(self, st, ref):
        v = self.load(st, ref.loc)
        if not isinstance(v, Seq):
            raise Unsupported('slice over %r' % (v,))
        if ref.rng is None:
            return v.e
        s, n = ref.rng
        return v.e[s:s + n]

    def slice_len(self, st, ref):
        if ref.rng is not None:
            return ref.rng[1]
        v = self.load(st, ref.loc)
        return len(v.e)

    # ---------------------------------------------------------------- parsing of places / operands / rvalues (cached)
    def parse_place(self, s):
        s = s.strip()
        c = self._parse_cache.get(('p', s))
        if c is None:
            c, rest = self._pplace(s, 0)
            if rest != len(s):
                raise Unsupported('place trailing %r in %r' % (s[rest:], s))
            self._parse_cache[('p', s)] = c
        return c

    def _pplace(self, s, i):
        # base
        if s[i] == '(':
            j = match_close(s, i)
            inner = s[i + 1:j]
            if inner.startswith('*'):
                base, k = self._pplace(inner, 1)
                if k != len(inner): raise Unsupported('deref place ' + s)
                node = ('deref', base)
            else:
                base, k = self._pplace(inner, 0)
                rest = inner[k:]
                m = re.match(r' as (\w+(?:#\d+)?)$', rest)
                if m:
                    node = ('downcast', base, m.group(1))
                else:
                    m = re.match(r'\.(\d+): ', rest)
                    if not m: raise Unsupported('place ' + s)
                    node = ('field', base, int(m.group(1)))
            i = j + 1
        else:
            m = re.match(r'_\d+', s[i:])
            if not m: raise Unsupported('place ' + s)
            node = ('local', m.group(0)); i += m.end()
        # suffixes
        while i < len(s) and s[i] == '[':
            j = match_close(s, i)
            ix = s[i + 1:j]
            m = re.fullmatch(r'(_\d+)', ix)
            if m: node = ('index', node, m.group(1))
            else:
                m = re.fullmatch(r'(-?)(\d+) of (\d+)', ix)
                if m: node = ('cindex', node, int(m.group(2)), bool(m.group(1)))
                else:
                    m = re.fullmatch(r'(\d+)(\.\.|:)(-?)(\d*)', ix)
                    if m: node = ('subslice', node, int(m.group(1)), m.group(3) == '-', int(m.group(4) or 0))
                    else: raise Unsupported('index ' + ix)
            i = j + 1
        return node, i

    def place_loc(self, st, fr, node):
        """-> (Loc, rng) where rng restricts a slice view"""
        k = node[0]
        if k == 'local':
            return Loc(('L', fr.fid, node[1])), None
        if k == 'deref':
            loc, _ = self.place_loc(st, fr, node[1])
            r = self.load(st, loc)
            if not isinstance(r, Ref):
                raise Unsupported('deref of %r in %s' % (r, fr.fn.name))
            return r.loc, r.rng
        if k == 'field':
            loc, _ = self.place_loc(st, fr, node[1])
            return loc.sub(node[2]), None
        if k == 'downcast':
            return self.place_loc(st, fr, node[1])
        if k == 'index':
            loc, rng = self.place_loc(st, fr, node[1])
            iv = fr.locals[node[2]]
            i = self.conc_int(st, iv)
            base = rng[0] if rng else 0
            return loc.sub(base + i), None
        if k == 'cindex':
            loc, rng = self.place_loc(st, fr, node[1])
            base = rng[0] if rng else 0
            if node[3]:
                n = rng[1] if rng else len(self.load(st, loc).e)
                return loc.sub(base + n - node[2]), None
            return loc.sub(base + node[2]), None
        if k == 'subslice':
            loc, rng = self.place_loc(st, fr, node[1])
            base = rng[0] if rng else 0
            n = rng[1] if rng else len(self.load(st, loc).e)
            a = node[2]; b = (n - node[4]) if node[3] else (node[4] if node[4] else n)
            return loc, (base + a, b - a)
        raise Unsupported('place kind ' + k)

    def read_place(self, st, fr, s):
        node = self.parse_place(s)
        if node[0] == 'local':
            try:
                return fr.locals[node[1]]
            except KeyError:
                raise Unsupported('read of unset local %s in %s' % (node[1], fr.fn.name))
        loc, rng = self.place_loc(st, fr, node)
        v = self.load(st, loc)
        if rng is not None and isinstance(v, Seq):
            return Seq('arr', v.e[rng[0]:rng[0] + rng[1]])
        return v

    def write_place(self, st, fr, s, val):
        node = self.parse_place(s)
        if node[0] == 'local':
            st.jset(fr.locals, node[1], val); return
        loc, rng = self.place_loc(st, fr, node)
        self.store(st, loc, val)

    # operands -------------------------------------------------------
    def operand(self, st, fr, o):
        o = o.strip()
        if o.startswith('copy ') or o.startswith('move '):
            return self.read_place(st, fr, o[5:])
        if o.startswith('no_retag '):
            return self.operand(st, fr, o[9:])
        if o.startswith('const '):
            return self.constant(st, fr, o[6:].strip())
        if re.match(r'[A-Za-z_<]', o) and '(' not in o.split('<')[0]:
            return FnItem(self.subst(fr, o))       # bare function item (e.g. `.map(Felt::new)`)
        raise Unsupported('operand ' + o)

    def constant(self, st, fr, c):
        m = re.fullmatch(r'(-?\d+)_(\w+)', c)
        if m and m.group(2) in WIDTH:
            return mkint(int(m.group(1)), m.group(2))
        if c == 'true': return mkbool(True)
        if c == 'false': return mkbool(False)
        if c == '()': return UNIT
        m = re.fullmatch(r'(-?[\d.]+(?:[eE][-+]?\d+)?|-?inf|NaN)f64', c)
        if m:
            return V(float(m.group(1)), 'f64')
        if c.startswith('ZeroSized: '):
            t = c[11:].strip()
            if t.startswith('{closure@'):
                return Closure(self.prog.closures[t].name if t in self.prog.closures else t, ())
            return FnItem(self.subst(fr, t))
        if c.startswith('"'):
            return Opaque('str', c)
        if c.startswith('b"'):
            return Opaque('bytes', c)
        m = re.fullmatch(r"'(.)'", c)
        if m:
            return V(ord(m.group(1)), 'char')
        if c in fr.env:
            v = fr.env[c]
            return mkint(v, 'usize') if isinstance(v, int) else v
        m = re.fullmatch(r'(?:(?:core|std)::num::<impl )?(\w+)>?::(MIN|MAX|BITS)', c)
        if m and m.group(1) in WIDTH:
            ty = m.group(1); w = WIDTH[ty]
            if m.group(2) == 'BITS': return mkint(w, 'u32')
            if m.group(2) == 'MIN': return mkint(-(1 << (w - 1)) if signed(ty) else 0, ty)
            return mkint((1 << (w - 1)) - 1 if signed(ty) else (1 << w) - 1, ty)
        if c in ('std::f64::consts::LN_2',): return V(0.6931471805599453, 'f64')
        if c in ('std::f64::consts::PI',): return V(3.141592653589793, 'f64')
        if re.fullmatch(r'Option::<.*>::None', c): return NONE
        if c in ('RangeFull', 'std::ops::RangeFull', 'core::ops::RangeFull'): return Agg('RangeFull', None, ())
        # named const / static / promoted
        return self.named_const(st, fr, c)

    def named_const(self, st, fr, c):
        c2 = re.sub(r'^<Self as [\w:]+>::', '', c)
        key = (c2, fr.fn.name if 'promoted' in c2 else None, tuple(sorted((k, v) for k, v in fr.env.items() if isinstance(v, int))) if 'promoted' in c2 else None)
        if key in self.const_cache:
            return self.const_cache[key]
        try:
            item = self.prog.find_const(Program.strip_generics(c2), fr.fn)
        except KeyError:
            raise Unsupported('constant ' + c)
        if item.simple_const is not None:
            val = self.operand(st, fr, item.simple_const)
        else:
            val = self.run_const(item, fr.env)
        self.const_cache[key] = val
        return val

    def run_const(self, item, env):
        """evaluate a const item's MIR body concretely in a scratch state"""
        st = State()
        fr = Frame(item, 0, dict(env)); st.nfid = 1
        fr.sync = True
        st.stack.append(fr)
        return self.run_sync_frame(st)    # do_return detaches references into the scratch frame

    def detach(self, st, v):
        if isinstance(v, Ref):
            inner = self.detach(st, self.load(st, v.loc))
            return Ref(Loc(('T', inner)), v.rng)
        if isinstance(v, Agg):
            return Agg(v.name, v.variant, [self.detach(st, x) for x in v.f])
        if isinstance(v, Seq):
            return Seq(v.kind, [self.detach(st, x) for x in v.e])
        return v

    def subst(self, fr, s):
        """substitute generic parameters known in the frame's env into a type / path string"""
        if 'Self' in fr.env and 'Self' in s:
            s = re.sub(r'\bSelf\b', fr.env['Self'], s)
        for k, v in fr.env.items():
            if k != 'Self' and isinstance(v, int) and re.search(r'\b%s\b' % k, s):
                s = re.sub(r'(?<![\w:])%s\b(?!\s*[:(])' % k, str(v), s)
            elif k != 'Self' and isinstance(v, str) and len(k) <= 2 and re.search(r'\b%s\b' % k, s):
                s = re.sub(r'(?<![\w:])%s\b(?![\w(])' % k, v, s)       # type parameter of a generic impl (e.g. F := Felt)
        return s

    # rvalues ---------------------------------------------------------
    BIN = ('Add', 'Sub', 'Mul', 'Div', 'Rem', 'BitXor', 'BitAnd', 'BitOr', 'Shl', 'Shr', 'Eq', 'Lt', 'Le', 'Ne', 'Ge', 'Gt',
           'AddUnchecked', 'SubUnchecked', 'MulUnchecked', 'ShlUnchecked', 'ShrUnchecked')

    def rvalue(self, st, fr, r):
        r = r.strip()
        m = re.match(r'(\w+)\(', r)
        if m and r.endswith(')') and match_close(r, m.end() - 1) == len(r) - 1:
            name = m.group(1); inner = r[m.end():-1]
            if name in self.BIN:
                a, b = [self.operand(st, fr, x) for x in split_top(inner)]
                if self.abstract_rem and name == 'Rem' and b.conc and not a.conc and not signed(a.ty) and a.ty in WIDTH:
                    # cut point: x % m is replaced by a fresh residue in [0, m) - sound for panic-freedom obligations, keeps them local
                    self.n_rem += 1
                    r = z3.BitVec('rem_%d' % self.n_rem, WIDTH[a.ty])
                    self.assume(z3.ULT(r, z3.BitVecVal(b.t, WIDTH[a.ty])))
                    self.bounds['rem_%d' % self.n_rem] = (0, b.t - 1)
                    return V(r, a.ty)
                if name in ('Le', 'Lt', 'Ge', 'Gt') and a.ty in WIDTH and not (a.conc and b.conc):
                    log = self.user.setdefault('cmp_log', [])      # symbolic integer comparisons (type, operands): lets an oracle see in which width a bound is tested
                    if len(log) < 400:
                        log.append((a.ty, a.t if not a.conc else b.t))
                return binop(name, a, b)
            if name.endswith('WithOverflow'):
                a, b = [self.operand(st, fr, x) for x in split_top(inner)]
                if self.sq_abstract and name == 'MulWithOverflow' and not a.conc and not b.conc and a.t.eq(b.t):
                    return self.abstract_square(st, a)
                if self.prod_abstract and name == 'MulWithOverflow' and not a.conc and not b.conc and not signed(a.ty):
                    pv = self.abstract_product(a, b)
                    if pv is not None:
                        return Tup(pv, mkbool(False))
                if self.use_intervals and not (a.conc and b.conc) and not signed(a.ty):
                    # unsigned interval arithmetic over the term DAG (exact for sums of independent bounded variables): when the result
                    # provably fits, the overflow flag is the constant false and no solver query is needed
                    (la, ha), (lb, hb) = self.interval(a), self.interval(b)
                    w = WIDTH[a.ty]
                    op = name[:3]
                    fits = (op == 'Add' and ha + hb < (1 << w)) or (op == 'Sub' and la - hb >= 0) or (op == 'Mul' and ha * hb < (1 << w))
                    if fits:
                        return Tup(binop(op, a, b), mkbool(False))
                return ovf_op(name[:3], a, b)
            if name in ('Not', 'Neg'):
                return unop(name, self.operand(st, fr, inner))
            if name == 'PtrMetadata':
                ref = self.operand(st, fr, inner)
                return mkint(self.slice_len(st, ref), 'usize')
            if name == 'Len':
                v = self.read_place(st, fr, inner)
                return mkint(len(v.e), 'usize')
            if name == 'discriminant':
                v = self.read_place(st, fr, inner)
                return self.discriminant(v)
            if name == 'Cmp':
                a, b = [self.operand(st, fr, x) for x in split_top(inner)]
                lt = binop('Lt', a, b); eq = binop('Eq', a, b)
                if lt.conc and eq.conc:
                    return Agg('Ordering', 'Less' if lt.t else ('Equal' if eq.t else 'Greater'), ())
                raise Unsupported('symbolic Cmp')
        # casts
        m = re.match(r'(.*) as (.*?) \((\w+)(?:\((.*)\))?\)$', r)
        if m and m.group(1).startswith(('copy ', 'move ', 'const ')):
            a = self.operand(st, fr, m.group(1)); ty = m.group(2).strip(); kind = m.group(3)
            if kind == 'IntToInt': return cast_int(a, ty)
            if kind == 'FloatToInt': return float_to_int(a, ty)
            if kind == 'IntToFloat': return int_to_float(a)
            if kind == 'FloatToFloat': return a
            if kind == 'PointerCoercion':
                if 'Unsize' in (m.group(4) or ''):
                    if isinstance(a, Ref) and a.rng is None:
                        v = self.load(st, a.loc)
                        if isinstance(v, Seq):
                            return Ref(a.loc, (0, len(v.e)))
                    return a
                return a
            if kind in ('PtrToPtr', 'Transmute'):
                return a
            raise Unsupported('cast ' + kind)
        # references
        m = re.match(r'&(?:mut |raw const \(fake\) |raw mut \(fake\) |raw const |raw mut |fake shallow |fake deep |fake )?(.*)$', r)
        if m and not r.startswith('&&'):
            node = self.parse_place(m.group(1))
            loc, rng = self.place_loc(st, fr, node)
            return Ref(loc, rng)
        if r.startswith(('copy ', 'move ', 'const ', 'no_retag ')):
            return self.operand(st, fr, r)
        return self.aggregate(st, fr, r)

    def discriminant(self, v):
        if isinstance(v, SymResult):
            if v.opt:      # Option: None = 0, Some = 1
                return V(z3.If(v.err, z3.BitVecVal(0, 64), z3.BitVecVal(1, 64)), 'isize')
            return V(z3.If(v.err, z3.BitVecVal(1, 64), z3.BitVecVal(0, 64)), 'isize')
        if not isinstance(v, Agg):
            raise Unsupported('discriminant of %r' % (v,))
        if v.name == 'Option': return mkint({'None': 0, 'Some': 1}[v.variant], 'isize')
        if v.name == 'Result': return mkint({'Ok': 0, 'Err': 1}[v.variant], 'isize')
        if v.name == 'Ordering': return mkint({'Less': -1, 'Equal': 0, 'Greater': 1}[v.variant], 'i8')
        en = self.tables.get('enums', {}).get(v.name)
        if en is None:
            raise Unsupported('discriminant of enum ' + v.name)
        return mkint(en.index(v.variant), 'isize')

    def aggregate(self, st, fr, r):
        if r.startswith('(') and r.endswith(')'):
            return Tup(*[self.operand(st, fr, x) for x in split_top(r[1:-1])])
        if r.startswith('[') and r.endswith(']'):
            inner = r[1:-1]
            parts = split_top(inner, ';')
            if len(parts) == 2:
                v = self.operand(st, fr, parts[0])
                n = self.operand(st, fr, parts[1]) if parts[1].strip().startswith('const') else mkint(int(self.subst(fr, parts[1].strip())), 'usize')
                return Seq('arr', [v] * n.t)
            return Seq('arr', [self.operand(st, fr, x) for x in split_top(inner)])
        if r.startswith('{closure@'):
            j = match_close(r, 0)
            cty = r[:j + 1]
            rest = r[j + 1:].strip()
            caps = []
            if rest.startswith('{'):
                for fld in split_top(rest[1:-1]):
                    caps.append(self.operand(st, fr, fld.split(':', 1)[1]))
            fn = self.prog.closures.get(cty)
            return Closure(fn.name if fn else cty, caps)
        # Name::<T>::Variant(args) | Name(args) | Name { f: v } | Name::<T>::Variant
        m = re.match(r'([\w:]+?(?:::<.*?>)?(?:::\w+)*)\s*(\{.*\}|\(.*\))?$', r)
        path = r; body = None
        # find trailing (...) or {...} group at top level
        if r.endswith(')') or r.endswith('}'):
            # locate the opening bracket matching the last char
            close = r[-1]; op = '(' if close == ')' else '{'
            d = 0; k = len(r) - 1
            while k >= 0:
                if r[k] == close: d += 1
                elif r[k] == op:
                    d -= 1
                    if d == 0: break
                k -= 1
            path = r[:k].strip(); body = r[k:]
        p = Program.strip_generics(path)
        segs = p.split('::')
        if body is None:
            # unit variant / unit struct
            if len(segs) >= 2 and segs[-2] in ('Option',) and segs[-1] == 'None': return NONE
            return Agg(segs[-2] if len(segs) >= 2 else segs[-1], segs[-1] if len(segs) >= 2 else None, ())
        if body.startswith('('):
            args = [self.operand(st, fr, x) for x in split_top(body[1:-1])]
            last = segs[-1]
            if len(segs) >= 2 and segs[-2] in ('Option', 'Result') or (len(segs) >= 2 and segs[-2] in self.tables.get('enums', {})):
                return Agg(segs[-2], last, args)
            return Agg(last, None, args)          # tuple struct
        # struct literal
        flds = {}
        for fld in split_top(body[1:-1].strip()):
            k, v = fld.split(':', 1)
            flds[k.strip()] = self.operand(st, fr, v)
        name = segs[-1]
        order = self.tables.get('structs', {}).get(name)
        if name in ('Range',) and order is None: order = ['start', 'end']
        if name == 'RangeInclusive' and order is None: order = ['start', 'end', 'exhausted']
        if order is None:
            # enum struct-variant? fall back to literal order
            order = list(flds)
        return Agg(name, None, [flds[k] for k in order])

    # ---------------------------------------------------------------- calls
    def callee_key(self, fr, callee):
        c = self.subst(fr, callee.strip())
        return c

    def resolve(self, fr, callee):
        """-> ('mir', MirFn, env) | ('summary', key, info)"""
        c = self.callee_key(fr, callee)
        generics = None
        # trait-qualified
        if c.startswith('<'):
            j = match_close(c, 0)
            inner = c[1:j]; rest = c[j + 1:]
            parts = inner.rsplit(' as ', 1) if ' as ' in inner else [inner, None]
            # split at top-level ' as '
            depth = 0; cut = None
            i = 0
            while i < len(inner):
                ch = inner[i]
                if ch in '<([{': depth += 1
                elif ch in '>)]}' and not (ch == '>' and inner[i - 1] in '-='): depth -= 1
                elif depth == 0 and inner.startswith(' as ', i): cut = i
                i += 1
            if cut is None:
                selfty, trait = inner, None
            else:
                selfty, trait = inner[:cut].strip(), inner[cut + 4:].strip()
            meth = Program.strip_generics(rest).lstrip(':')
            info = {'self': selfty, 'trait': trait, 'method': meth, 'raw': c}
            if trait is not None:
                tb = re.sub(r'<.*$', '', trait).split('::')[-1]
                _t = selfty.strip()
                _amp = '&' if _t.startswith('&') else ''
                _t = re.sub(r"^'\w+ ", '', _t.lstrip('&').strip()).replace('mut ', '').strip()
                sb = _amp + re.sub(r'<.*$', '', _t).split('::')[-1]
                for key in ('<%s as %s>::%s' % (selfty, trait, meth), '<%s as %s>::%s' % (selfty, tb, meth), '<%s as %s>::%s' % (sb, tb, meth)):
                    if key in self.over:
                        return ('over', key, info)
                for key in ('<%s as %s>::%s' % (selfty, trait, meth), '<%s as %s>::%s' % (selfty, tb, meth), '<%s as %s>::%s' % (sb, tb, meth)):
                    if key in self.prog.by_key:
                        env = dict(fr.env); env['Self'] = selfty
                        return ('mir', self.prog.by_key[key], env)
                dk = '%s::%s' % (tb, meth)
                if dk in self.over:
                    return ('over', dk, info)
                if dk in self.prog.by_key and sb not in ('',) and not self._is_lib_type(sb.lstrip('&')):
                    env = dict(fr.env); env['Self'] = selfty
                    return ('mir', self.prog.by_key[dk], env)
                return ('summary', dk, info)
            else:
                # <T>::method  (inherent on a complex type)
                sb = re.sub(r'<.*$', '', selfty).split('::')[-1]
                return self._plain(fr, sb + '::' + meth, c)
        return self._plain(fr, Program.strip_generics(c), c)

    LIB_TYPES = ('Vec', 'BitVec', 'Option', 'Result', 'Box', 'usize', 'u8', 'u16', 'u32', 'u64', 'u128', 'i8', 'i16', 'i32', 'i64', 'i128',
                 'isize', 'f64', 'bool', 'Map', 'Iter', 'Range', 'Skip', 'Take', 'Rev', 'StepBy', 'Enumerate', 'Filter', 'Zip', 'Chunk',
                 'Chunks', 'IntoChunks', 'IntoIter', 'Complex', 'Complex64', 'String', 'str')

    def _is_lib_type(self, t):
        return t in self.LIB_TYPES

    def _plain(self, fr, key, raw):
        info = {'raw': raw, 'self': None, 'trait': None, 'method': key.split('::')[-1]}
        # normalise a few library spellings
        k = key
        k = re.sub(r'^(?:core|std|alloc)::slice::<impl \[.*\]>::', 'slice::', k)
        k = re.sub(r'^slice::<impl \[.*\]>::', 'slice::', k)
        m = re.match(r'^(?:core|std)::num::<impl (\w+)>::(\w+)$', k)
        if m:
            info['int_ty'] = m.group(1); k = 'int::' + m.group(2)
        m = re.match(r'^f64::<impl f64>::(\w+)$', k)
        if m: k = 'f64::' + m.group(1)
        m = re.match(r'^(?:core|std)::f64::<impl f64>::(\w+)$', k)
        if m: k = 'f64::' + m.group(1)
        m = re.match(r'^(?:core|std)::array::<impl \[.*\]>::(\w+)$', k)
        if m: k = 'array::' + m.group(1)
        m = re.match(r'^(?:core|std)::str::<impl str>::(\w+)$', k)
        if m: k = 'str::' + m.group(1)
        m = re.match(r'^(?:core|std)::bool::<impl bool>::(\w+)', k)
        if m: k = 'bool::' + m.group(1)
        m = re.match(r'^(?:core|std)::iter::(repeat_with|repeat_n|repeat|from_fn|once|empty|successors)\b', k)
        if m: k = 'iter::' + m.group(1)
        for cand in (k, k.split('::', 1)[1] if '::' in k else k):
            if cand in self.over:
                return ('over', cand, info)
        if k in self.prog.by_key and self.prog.by_key[k].kind == 'fn':
            return ('mir', self.prog.by_key[k], dict(fr.env))
        # module-qualified crate paths: try suffixes
        segs = k.split('::')
        for i in range(1, len(segs) - 1):
            cand = '::'.join(segs[i:])
            if cand in self.over:
                return ('over', cand, info)
            if cand in self.prog.by_key and self.prog.by_key[cand].kind == 'fn':
                return ('mir', self.prog.by_key[cand], dict(fr.env))
        return ('summary', k, info)

    def call_args(self, st, fr, argstr):
        return [self.operand(st, fr, x) for x in split_top(argstr)]

    def push_call(self, st, fn, env, args, turbofish=None):
        f = Frame(fn, st.nfid, env); st.nfid += 1
        if len(args) != len(fn.params):
            raise Unsupported('arity mismatch calling %s: %d vs %d' % (fn.name, len(args), len(fn.params)))
        for p, a in zip(fn.params, args):
            f.locals[p] = a
        st.stack.append(f)
        return f

    def call_value(self, st, callable_, args):
        """synchronously call a closure / fn item from inside a summary (no symbolic fork allowed inside)"""
        if isinstance(callable_, Closure):
            fn = self.prog.items.get(callable_.fn)
            if fn is None:
                raise Unsupported('closure body not found: %s' % callable_.fn)
            caller = st.stack[-1]
            # closure receives (&mut self_closure, args...) ; FnOnce by value -- MIR bodies here take _1 = &mut closure or closure
            cell = st.alloc(callable_)
            first_ty = fn.types[fn.params[0]]
            first = Ref(cell) if first_ty.startswith('&') else callable_
            if len(fn.params) == 2 and len(args) != 1:
                args = [Tup(*args)]
            f = self.push_call(st, fn, dict(caller.env), [first] + list(args))
            f.sync = True
            return self.run_sync_frame(st)
        if isinstance(callable_, FnItem):
            caller = st.stack[-1]
            kind, tgt, info = self.resolve(caller, callable_.name)
            if kind == 'mir':
                f = self.push_call(st, tgt, info, list(args)); f.sync = True
                return self.run_sync_frame(st)
            fnp = self.over[tgt] if kind == 'over' else self.summ.get(tgt)
            if fnp is None:
                raise Unsupported('no summary for fn item %s' % tgt)
            r = fnp(self, st, caller, list(args), info)
            if r is PENDING:
                raise Unsupported('fn item %s needs asynchronous call' % tgt)
            return r
        raise Unsupported('call of %r' % (callable_,))

    def run_sync_frame(self, st):
        """run until the top frame (marked sync) returns; forks are not allowed inside"""
        base = len(st.stack) - 1
        try:
            while True:
                r = self.step(st, sync_base=base)
                if r is not None:
                    if r[0] == 'sync_return':
                        return r[1]
                    if r[0] != 'fork':
                        raise Unsupported('unexpected step result inside a synchronous call: %r' % (r[0],))
                    # a symbolic branch inside a closure called from a library summary: if only one arm is feasible take it;
                    # otherwise abandon this execution of the summary and let the OUTER path fork on the arm's condition - the
                    # summary is then re-executed on each side with the branch decided
                    feas = []
                    for c, bb in r[1]:
                        if z3.is_false(c):
                            continue
                        if self.check(c)[0]:
                            feas.append((c, bb))
                    if len(feas) == 1 and feas[0][1] is not None:
                        st.stack[-1].jump(feas[0][1]); continue
                    if len(feas) == 1:
                        self.assume(feas[0][0]); continue
                    if not feas:
                        raise Unsupported('no feasible arm inside a synchronous call')
                    merged = self.merge_sync_arms(st, base, feas)
                    if merged is not None:
                        del st.stack[base:]
                        return merged[0]
                    raise ForkBool(feas[0][0])
        except BaseException:
            del st.stack[base:]            # the summary will be re-executed (or the path ends): drop its frames
            raise

    def merge_sync_arms(self, st, base, feas):
        """state merging for a two-way symbolic branch inside a closure called from a library summary: both arms are run
        to the closure's return on copies of the state, under their arm condition; if neither has a side effect outside
        its own frames and the two return values have mergeable shapes (scalars -> ite, Ok/Err -> SymResult, aggregates
        fieldwise) the closure returns the merged value and the path does not split. Anything else: None (the caller
        falls back to forking the outer path). Obligations inside the arms are decided under the arm condition."""
        if len(feas) != 2 or getattr(self, 'no_sync_merge', False):
            return None
        n_pan = len(self.panics)
        outs = []; extras = []
        for cond, bb in feas:
            s2 = st.clone()
            if bb is not None:
                s2.stack[-1].jump(bb)
            self.push()
            try:
                self.assume(cond)
                k = len(self.pc[-1])
                try:
                    rv = self.run_sync_frame_at(s2, base)
                except (ForkBool, ForkOn, PathEnd):
                    del self.panics[n_pan:]
                    return None
                extras.append((cond, list(self.pc[-1][k:])))   # constraints the arm added (cut-point definitions, pruning)
            finally:
                self.pop()
            # side effects below the closure's own frames or in pre-existing heap cells?
            for a, b in zip(st.stack[:base], s2.stack[:base]):
                if len(a.locals) != len(b.locals) or any(b.locals.get(k) is not v for k, v in a.locals.items()):
                    del self.panics[n_pan:]
                    return None
            if any(s2.heap.get(k) is not v for k, v in st.heap.items()):
                del self.panics[n_pan:]
                return None
            outs.append((cond, rv))
        try:
            m = merge_values(outs[0][0], outs[0][1], outs[1][1])
        except NoMerge:
            del self.panics[n_pan:]
            return None
        for cond, cs in extras:
            for c in cs:
                self.assume(z3.Implies(cond, c))               # they keep constraining the merged value when that arm is taken
        self.n_merged = getattr(self, 'n_merged', 0) + 1
        return (m,)

    def run_sync_frame_at(self, st, base):
        """continue a synchronous call whose frame sits at index `base` of st (used by merge_sync_arms on state copies)"""
        while True:
            r = self.step(st, sync_base=base)
            if r is None:
                continue
            if r[0] == 'sync_return':
                return r[1]
            if r[0] != 'fork':
                raise Unsupported('unexpected step result inside a synchronous call: %r' % (r[0],))
            feas = [(c, bb) for c, bb in r[1] if not z3.is_false(c) and self.check(c)[0]]
            if len(feas) == 1 and feas[0][1] is not None:
                st.stack[-1].jump(feas[0][1]); continue
            if len(feas) == 1:
                self.assume(feas[0][0]); continue
            if not feas:
                raise Unsupported('no feasible arm inside a synchronous call')
            merged = self.merge_sync_arms(st, base, feas)
            if merged is None:
                raise ForkBool(feas[0][0])
            del st.stack[base:]
            return merged[0]

    # ---------------------------------------------------------------- stepping
    def step(self, st, sync_base=None):
        """execute one basic block of the top frame. Returns None normally, ('done', value) when the
        bottom frame returns, ('fork', arms) on a symbolic branch, ('sync_return', v)."""
        fr = st.stack[-1]
        stmts = fr.fn.blocks[fr.bb]
        self.steps += 1
        last = len(stmts) - 1
        try:
            while fr.pc < last:
                self.statement(st, fr, stmts[fr.pc])
                fr.pc += 1
            if st.journal is not None:
                return self.terminator(st, fr, stmts[last], sync_base)
            # outermost terminator: a library summary that calls closures may be abandoned half-way (ForkOn / ForkBool) and
            # re-executed on each side of the fork; the writes it (or its closures) made so far are undone first
            st.journal = j = []
            depth = len(st.stack)
            try:
                return self.terminator(st, fr, stmts[last], sync_base)
            except (ForkOn, ForkBool):
                del st.stack[depth:]
                st.rollback(j)
                raise
            finally:
                st.journal = None
        except ForkOn as fo:
            return self.fork_values(st, fo)
        except ForkBool as fb:
            return self.fork_bool(st, fb.cond)

    def statement(self, st, fr, s):
        if s.startswith(('nop', 'FakeRead', 'AscribeUserType', 'PlaceMention', 'Retag', 'Coverage', 'ConstEvalCounter', 'Deinit', 'BackwardIncompatibleDropHint')):
            return
        if s.startswith('discriminant('):
            # SetDiscriminant
            raise Unsupported('SetDiscriminant ' + s)
        m = self._parse_cache.get(('s', s))
        if m is None:
            i = s.index(' = ')
            m = (s[:i], s[i + 3:].rstrip(';'))
            self._parse_cache[('s', s)] = m
        val = self.rvalue(st, fr, m[1])
        self.write_place(st, fr, m[0], val)

    def site(self, fr):
        return '%s@%s' % (fr.fn.key or fr.fn.name, fr.bb)

    def record_panic(self, st, fr, kind, msg, model):
        self.panics.append({'kind': kind, 'msg': msg, 'site': self.site(fr), 'fn': fr.fn.key or fr.fn.name,
                            'inputs': self.model_inputs(model) if model is not None else None,
                            'stack': [f.fn.key or f.fn.name for f in st.stack]})

    def do_return(self, st, sync_base):
        fr = st.stack[-1]
        rv = fr.locals.get('_0', UNIT)
        if fr.fn.kind == 'const':
            rv = self.detach(st, rv)
        st.stack.pop()
        if sync_base is not None and len(st.stack) == sync_base:
            return ('sync_return', rv)
        if not st.stack:
            return ('done', rv)
        if fr.sync:
            raise Unsupported('sync frame returned outside run_sync_frame')
        caller = st.stack[-1]
        if fr.ret_dest is not None:
            self.write_place(st, caller, fr.ret_dest, rv)
        caller.jump(fr.ret_bb)
        return None

    def terminator(self, st, fr, t, sync_base):
        if t.startswith('goto -> '):
            fr.jump(t[8:-1]); return None
        if t == 'return;':
            return self.do_return(st, sync_base)
        if t.startswith('drop('):
            m = re.search(r'-> \[return: (bb\d+)', t)
            fr.jump(m.group(1)); return None
        if t.startswith('switchInt('):
            return self.switch(st, fr, t, sync_base)
        if t.startswith('assert('):
            return self.assert_(st, fr, t, sync_base)
        if t == 'unreachable;':
            raise Unsupported('unreachable reached in %s %s' % (fr.fn.name, fr.bb))
        if t.startswith('resume'):
            raise Unsupported('resume reached')
        # call
        m = self._parse_cache.get(('c', t))
        if m is None:
            mm = re.match(r'(?:(.+?) = )?(.+) -> (\[return: (bb\d+).*\]|unwind .*);$', t)
            if not mm:
                raise Unsupported('terminator ' + t)
            call = mm.group(2)
            # split callee(args) at the last top-level paren group
            k = len(call) - 1
            assert call[k] == ')', call
            d = 0
            while k >= 0:
                if call[k] == ')': d += 1
                elif call[k] == '(':
                    d -= 1
                    if d == 0: break
                k -= 1
            m = (mm.group(1), call[:k], call[k + 1:-1], mm.group(4))
            self._parse_cache[('c', t)] = m
        dest, callee, argstr, target = m
        return self.call(st, fr, dest, callee, argstr, target, sync_base)

    def call(self, st, fr, dest, callee, argstr, target, sync_base):
        if callee.startswith(('copy ', 'move ')):
            # call through a function value
            fv = self.operand(st, fr, callee)
            args = self.call_args(st, fr, argstr)
            rv = self.call_value(st, fv, args)
            if dest: self.write_place(st, fr, dest, rv)
            fr.jump(target)
            return None
        kind, tgt, info = self.resolve(fr, callee)
        args = self.call_args(st, fr, argstr)
        if kind == 'mir':
            if target is None:
                raise Unsupported('diverging MIR call ' + callee)
            f = self.push_call(st, tgt, info, args)
            f.ret_dest = dest; f.ret_bb = target
            self.fn_steps[tgt.key or tgt.name] = self.fn_steps.get(tgt.key or tgt.name, 0) + 1
            return None
        if kind == 'summary' and tgt in ('FnMut::call_mut', 'Fn::call', 'FnOnce::call_once') and args:
            # a local closure called by name in the code itself (`push_bits(x, 3)`): an ordinary call of the closure's MIR body
            c0 = args[0]
            cl = self.load(st, c0.loc) if isinstance(c0, Ref) else c0
            if isinstance(cl, Ref):
                c0 = cl; cl = self.load(st, cl.loc)
            if isinstance(cl, FnItem):
                rv = self.call_value(st, cl, list(args[1].f) if len(args) > 1 and isinstance(args[1], Agg) and args[1].name == 'tuple' else args[1:])
                if dest: self.write_place(st, fr, dest, rv)
                fr.jump(target)
                return None
            if isinstance(cl, Closure):
                body = self.prog.items.get(cl.fn)
                if body is None:
                    raise Unsupported('closure body not found: %s' % cl.fn)
                first_ty = body.types[body.params[0]]
                if first_ty.startswith('&'):
                    first = c0 if isinstance(c0, Ref) else Ref(st.alloc(cl))
                else:
                    first = cl
                rest = list(args[1:])
                if len(rest) == 1 and isinstance(rest[0], Agg) and rest[0].name == 'tuple' and len(body.params) == 1 + len(rest[0].f):
                    rest = list(rest[0].f)
                elif len(rest) == 1 and rest[0] is UNIT and len(body.params) == 1:
                    rest = []                      # `f()`: the argument tuple is the unit value
                if target is None:
                    raise Unsupported('diverging closure call')
                f = self.push_call(st, body, dict(fr.env), [first] + rest)
                f.ret_dest = dest; f.ret_bb = target
                return None
        if kind == 'summary' and args and info.get('trait'):
            # generic code (`<F as Neg>::neg`): dispatch on the runtime value's type
            a0 = args[0]
            if isinstance(a0, Ref) and info['method'] in ('clone', 'eq', 'ne', 'is_zero'):
                try:
                    a0 = self.load(st, a0.loc)
                except Exception:
                    a0 = None
            if isinstance(a0, Agg) and a0.name not in ('tuple', 'Option', 'Result', 'Range', 'RangeInclusive'):
                tb = re.sub(r'<.*$', '', info['trait']).split('::')[-1]
                key = '<%s as %s>::%s' % (a0.name, tb, info['method'])
                if key in self.over:
                    kind, tgt = 'over', key
                elif key in self.prog.by_key:
                    env = dict(fr.env); env['Self'] = a0.name
                    f = self.push_call(st, self.prog.by_key[key], env, args)
                    f.ret_dest = dest; f.ret_bb = target
                    return None
        fnp = self.over.get(tgt) if kind == 'over' else self.summ.get(tgt)
        if fnp is None:
            raise Unsupported('no summary for call %s  (key %s)' % (callee, tgt))
        if args and isinstance(args[0], SymResult) and isinstance(tgt, str) and tgt.startswith(('Option::', 'Result::')) and tgt not in SYMRESULT_AWARE:
            # a combinator without a rule for symbolic discriminants: decide the discriminant on this path (forks the path if both are possible)
            v0 = args[0]
            if self.conc_bool(st, V(v0.err, 'bool')):
                args = [NONE if v0.opt else Err(v0.errval)] + list(args[1:])
            else:
                args = [(Some if v0.opt else Ok)(v0.ok)] + list(args[1:])
        rv = fnp(self, st, fr, args, info)
        if rv is PENDING:
            return None
        if target is None:
            raise PathEnd()
        if dest: self.write_place(st, fr, dest, rv)
        fr.jump(target)
        return None

    def fork_bool(self, st, cond):
        return ('fork', [(cond, None), (simp(z3.Not(cond)), None)])

    def fork_values(self, st, fo):
        arms = []
        t = fo.v.t
        self.solver.push()
        try:
            while True:
                self.nq += 1
                t0 = time.time(); r = self.solver.check(); self.solver_s += time.time() - t0
                if r == z3.unknown:
                    raise Unsupported('solver unknown while enumerating the values of a term: ' + self.solver.reason_unknown())
                if r != z3.sat: break
                val = self.solver.model().eval(t, model_completion=True)
                arms.append((t == val, None))
                self.solver.add(t != val)
                if len(arms) > fo.cap:
                    raise Unsupported('more than %d feasible values for a term that must be concrete' % fo.cap)
        finally:
            self.solver.pop()
        return ('fork', arms)

    def switch(self, st, fr, t, sync_base):
        m = self._parse_cache.get(('w', t))
        if m is None:
            mm = re.match(r'switchInt\((.*)\) -> \[(.*)\];$', t)
            arms = []
            for x in split_top(mm.group(2)):
                k, b = x.split(': ')
                arms.append((k.strip(), b.strip()))
            m = (mm.group(1), arms)
            self._parse_cache[('w', t)] = m
        v = self.operand(st, fr, m[0])
        if isinstance(v, V) and v.conc:
            c = int(v.t)
            for k, b in m[1]:
                if k != 'otherwise' and int(k) == c:
                    fr.jump(b); return None
            fr.jump([b for k, b in m[1] if k == 'otherwise'][0])
            return None
        if not isinstance(v, V):
            raise Unsupported('switch on %r' % (v,))
        conds = []; taken = []
        for k, b in m[1]:
            if k == 'otherwise':
                c = z3.And(*[z3.Not(x) for x in taken]) if taken else z3.BoolVal(True)
            else:
                c = (v.t == z3.BoolVal(bool(int(k)))) if v.ty == 'bool' else (v.t == z3.BitVecVal(int(k), WIDTH[v.ty]))
                taken.append(c)
            conds.append((simp(c), b))
        return ('fork', conds)

    def assert_(self, st, fr, t, sync_base):
        m = self._parse_cache.get(('a', t))
        if m is None:
            mm = re.match(r'assert\((!?)(.*?), "(.*?)"(?:, .*)?\) -> \[success: (bb\d+).*$', t)
            if not mm:
                raise Unsupported('assert ' + t)
            m = (mm.group(1) == '!', mm.group(2), mm.group(3), mm.group(4))
            self._parse_cache[('a', t)] = m
        neg, opnd, msg, target = m
        v = self.operand(st, fr, opnd)
        site = self.site(fr)
        cnt = self.assert_sites.setdefault(site, [0, 0, msg])
        if v.conc:
            ok = (not v.t) if neg else bool(v.t)
            if ok:
                fr.jump(target); return None
            cnt[0] += 1; cnt[1] += 1
            self.record_panic(st, fr, 'assert', msg, self.model())
            raise PathEnd()
        cond = simp(z3.Not(v.t) if neg else v.t)
        cnt[0] += 1
        bad, model = self.possible(z3.Not(cond), site)
        if bad:
            cnt[1] += 1
            self.record_panic(st, fr, 'assert', msg, model)
            ok, _ = self.check(cond)
            if not ok:
                raise PathEnd()
            self.assume(cond)
        fr.jump(target)
        return None

    # ---------------------------------------------------------------- exploration
    def start(self, fn, args, env=None):
        st = State()
        f = Frame(fn, 0, dict(env or {})); st.nfid = 1
        for p, a in zip(fn.params, args):
            f.locals[p] = a
        st.stack.append(f)
        return st

    def explore(self, st):
        """depth-first exploration of all feasible paths from st"""
        while True:
            if self.deadline and time.time() > self.deadline:
                raise Unsupported('time budget exhausted')
            try:
                r = self.step(st)
            except PathEnd:
                self.paths += 1
                return
            if r is None:
                continue
            if r[0] == 'done':
                self.paths += 1
                if self.on_return:
                    self.on_return(self, st, r[1])
                return
            if r[0] == 'fork':
                arms = r[1]
                feas = []
                n = len(arms)
                for i, (cond, bb) in enumerate(arms):
                    if z3.is_false(cond):
                        continue
                    # last arm: if all others were infeasible it must be feasible (path condition is sat)
                    if i == n - 1 and not feas and all(not z3.is_true(c) for c, _ in arms[:-1]):
                        feas.append((cond, bb, True)); break
                    ok, _ = self.check(cond)
                    if ok:
                        feas.append((cond, bb, False))
                if not feas:
                    raise Unsupported('no feasible arm at a fork (path condition unsat?)')
                for j, (cond, bb, implied) in enumerate(feas):
                    last = j == len(feas) - 1
                    s2 = st if last else st.clone()
                    if bb is not None:
                        s2.stack[-1].jump(bb)
                    self.push()
                    self.assume(cond)
                    try:
                        self.explore(s2)
                    finally:
                        self.pop()
                return
            raise Unsupported('step result %r' % (r,))


SYMRESULT_AWARE = {'Option::map', 'Result::map', 'Option::unwrap', 'Result::unwrap', 'Option::expect', 'Result::expect', 'Option::ok_or', 'Option::ok_or_else',
                   'Option::is_some', 'Option::is_none'}


class NoMerge(Exception):
    pass


def merge_values(c, a, b):
    """value that equals a when c holds and b otherwise; NoMerge when the shapes cannot be merged"""
    if a is b:
        return a
    if a is None or b is None:
        raise NoMerge()
    if isinstance(a, V) and isinstance(b, V):
        if a.ty != b.ty or a.t.sort() != b.t.sort():
            raise NoMerge()
        return V(simp(z3.If(c, a.t, b.t)), a.ty)
    if isinstance(a, Agg) and isinstance(b, Agg):
        if a.name == 'Result' and b.name == 'Result' and a.variant != b.variant:
            ok, er = (a, b) if a.variant == 'Ok' else (b, a)
            if has_ref(ok.f[0]) or has_ref(er.f[0]):
                raise NoMerge()
            return SymResult(c if er is a else simp(z3.Not(c)), ok.f[0], er.f[0])
        if a.name == 'Option' and b.name == 'Option' and a.variant != b.variant:
            some, none = (a, b) if a.variant == 'Some' else (b, a)
            if has_ref(some.f[0]):
                raise NoMerge()
            return SymResult(c if none is a else simp(z3.Not(c)), some.f[0], None, opt=True)
        if a.name != b.name or a.variant != b.variant or len(a.f) != len(b.f):
            raise NoMerge()
        fs = []
        for x, y in zip(a.f, b.f):
            fs.append(merge_values(c, x, y))
        return Agg(a.name, a.variant, fs)
    if isinstance(a, SymResult) or isinstance(b, SymResult):
        isopt = [x.opt for x in (a, b) if isinstance(x, SymResult)][0]

        def parts(x):
            if isinstance(x, SymResult):
                if x.opt != isopt: raise NoMerge()
                return x.err, x.ok, x.errval
            if isinstance(x, Agg) and x.name == 'Result' and not isopt:
                return (z3.BoolVal(x.variant == 'Err'), x.f[0] if x.variant == 'Ok' else None, x.f[0] if x.variant == 'Err' else None)
            if isinstance(x, Agg) and x.name == 'Option' and isopt:
                return (z3.BoolVal(x.variant == 'None'), x.f[0] if x.variant == 'Some' else None, None)
            raise NoMerge()
        pa, pb = parts(a), parts(b)
        if isopt:
            ok = pa[1] if pb[1] is None else (pb[1] if pa[1] is None else merge_values(c, pa[1], pb[1]))
            return SymResult(simp(z3.If(c, pa[0], pb[0])), ok, None, opt=True)
        ok = pa[1] if pb[1] is None else (pb[1] if pa[1] is None else merge_values(c, pa[1], pb[1]))
        ev = pa[2] if pb[2] is None else (pb[2] if pa[2] is None else merge_values(c, pa[2], pb[2]))
        return SymResult(simp(z3.If(c, pa[0], pb[0])), ok, ev)
    if isinstance(a, Seq) and isinstance(b, Seq) and a.kind == b.kind and len(a.e) == len(b.e):
        es = []
        for x, y in zip(a.e, b.e):
            es.append(merge_values(c, x, y))
        return Seq(a.kind, es)
    raise NoMerge()


def has_ref(v):
    if isinstance(v, (Ref, Loc)):
        return True
    if isinstance(v, Agg):
        return any(has_ref(x) for x in v.f)
    if isinstance(v, Seq):
        return any(has_ref(x) for x in v.e)
    if isinstance(v, SymResult):
        return has_ref(v.ok) or has_ref(v.errval)
    return False


def fp_to_py(x):
    try:
        if z3.is_fp_value(x) or True:
            if x.isNaN(): return float('nan')
            if x.isInf(): return float('-inf') if x.isNegative() else float('inf')
            import struct
            s = x.sign(); e = x.exponent_as_long(biased=True); mnt = x.significand_as_long()
            bits = (int(bool(s)) << 63) | (e << 52) | mnt
            return struct.unpack('>d', struct.pack('>Q', bits))[0]
    except Exception:
        return str(x)

"""Further library summaries (std functions that maintainers' rewrites of the anchored code use and the pinned code does not):
Option / Result combinators, slice splitting, lazy generators, more integer helpers. Same contract as summaries.py."""
import re
import z3
from .values import *
from .interp import PathEnd, ForkOn, ForkBool, Unsupported, binop, unop, cast_int, mkint, mkbool
from .summaries import summary, S, lib_panic, it_next, it_drain, to_iter, as_loc


def _is_some(v):
    if not isinstance(v, Agg) or v.name not in ('Option', 'Result'):
        raise Unsupported('combinator on %r' % (v,))
    return v.variant in ('Some', 'Ok')


# ---------------------------------------------------------------------------------------------- Option / Result
@summary('Option::map_or', 'Result::map_or')
def s_map_or(ex, st, fr, args, info):
    v, dflt, f = args
    return ex.call_value(st, f, [v.f[0]]) if _is_some(v) else dflt


@summary('Option::map_or_else', 'Result::map_or_else')
def s_map_or_else(ex, st, fr, args, info):
    v, d, f = args
    if _is_some(v):
        return ex.call_value(st, f, [v.f[0]])
    return ex.call_value(st, d, [] if v.name == 'Option' else [v.f[0]])


@summary('Option::and_then', 'Result::and_then')
def s_and_then(ex, st, fr, args, info):
    v, f = args
    return ex.call_value(st, f, [v.f[0]]) if _is_some(v) else v


@summary('Option::unwrap_or_else', 'Result::unwrap_or_else')
def s_unwrap_or_else(ex, st, fr, args, info):
    v, f = args
    if _is_some(v):
        return v.f[0]
    return ex.call_value(st, f, [] if v.name == 'Option' else [v.f[0]])


@summary('Option::unwrap_or_default', 'Result::unwrap_or_default')
def s_unwrap_or_default(ex, st, fr, args, info):
    v = args[0]
    if _is_some(v):
        return v.f[0]
    m = re.search(r'(?:Option|Result)::<(\w+)', info['raw'])
    if m and m.group(1) in WIDTH: return mkint(0, m.group(1))
    if m and m.group(1) == 'bool': return mkbool(False)
    raise Unsupported('unwrap_or_default of ' + info['raw'])


@summary('Option::ok_or_else')
def s_ok_or_else(ex, st, fr, args, info):
    v, f = args
    if isinstance(v, SymResult) and v.opt:
        return SymResult(v.err, v.ok, ex.call_value(st, f, []))
    return Ok(v.f[0]) if _is_some(v) else Err(ex.call_value(st, f, []))


@summary('Option::filter')
def s_opt_filter(ex, st, fr, args, info):
    v, f = args
    if not _is_some(v):
        return v
    cell = st.alloc(v.f[0])
    return v if ex.conc_bool(st, ex.call_value(st, f, [Ref(cell)])) else NONE


@summary('Option::copied', 'Option::cloned')
def s_opt_copied(ex, st, fr, args, info):
    v = args[0]
    return Some(ex.deref(st, v.f[0])) if _is_some(v) else v


@summary('Option::is_some_and', 'Result::is_ok_and')
def s_is_some_and(ex, st, fr, args, info):
    v, f = args
    return ex.call_value(st, f, [v.f[0]]) if _is_some(v) else mkbool(False)


@summary('Option::is_none_or')
def s_is_none_or(ex, st, fr, args, info):
    v, f = args
    return ex.call_value(st, f, [v.f[0]]) if _is_some(v) else mkbool(True)


@summary('Option::or')
def s_opt_or(ex, st, fr, args, info):
    return args[0] if _is_some(args[0]) else args[1]


@summary('Option::or_else')
def s_opt_or_else(ex, st, fr, args, info):
    return args[0] if _is_some(args[0]) else ex.call_value(st, args[1], [])


@summary('Option::zip')
def s_opt_zip(ex, st, fr, args, info):
    return Some(Tup(args[0].f[0], args[1].f[0])) if _is_some(args[0]) and _is_some(args[1]) else NONE


@summary('Result::err')
def s_res_err(ex, st, fr, args, info):
    v = args[0]
    return Some(v.f[0]) if v.variant == 'Err' else NONE


@summary('Option::as_ref', 'Option::as_mut', 'Result::as_ref')
def s_opt_as_ref(ex, st, fr, args, info):
    r = args[0]
    v = ex.load(st, r.loc)
    if not isinstance(v, Agg) or v.name not in ('Option', 'Result'):
        raise Unsupported('as_ref of %r' % (v,))
    if v.variant in ('None',):
        return v
    return Agg(v.name, v.variant, (Ref(r.loc.sub(0)),))


@summary('bool::then_some')
def s_then_some(ex, st, fr, args, info):
    b = args[0]
    if not b.conc:
        c = simp(b.t)
        if not (z3.is_true(c) or z3.is_false(c)) and not any(isinstance(args[1], k) for k in (Ref, Loc)):
            return SymResult(simp(z3.Not(c)), args[1], None, opt=True)
    return Some(args[1]) if ex.conc_bool(st, b) else NONE


@summary('bool::then')
def s_then(ex, st, fr, args, info):
    return Some(ex.call_value(st, args[1], [])) if ex.conc_bool(st, args[0]) else NONE


# ---------------------------------------------------------------------------------------------- slices
@summary('slice::split_first', 'slice::split_first_mut')
def s_split_first(ex, st, fr, args, info):
    r = args[0]; n = ex.slice_len(st, r); base = r.rng[0] if r.rng else 0
    if n == 0: return NONE
    return Some(Tup(Ref(r.loc.sub(base)), Ref(r.loc, (base + 1, n - 1))))


@summary('slice::split_last', 'slice::split_last_mut')
def s_split_last(ex, st, fr, args, info):
    r = args[0]; n = ex.slice_len(st, r); base = r.rng[0] if r.rng else 0
    if n == 0: return NONE
    return Some(Tup(Ref(r.loc.sub(base + n - 1)), Ref(r.loc, (base, n - 1))))


S.setdefault('slice::get_mut', S['slice::get'])
S.setdefault('slice::first_mut', S['slice::first'])
S.setdefault('slice::last_mut', S['slice::last'])


@summary('slice::swap')
def s_swap(ex, st, fr, args, info):
    r = args[0]; n = ex.slice_len(st, r); base = r.rng[0] if r.rng else 0
    i = ex.conc_int(st, args[1]); j = ex.conc_int(st, args[2])
    if not (0 <= i < n and 0 <= j < n): lib_panic(ex, st, fr, 'index out of bounds (swap)')
    a = ex.load(st, r.loc.sub(base + i)); b = ex.load(st, r.loc.sub(base + j))
    ex.store(st, r.loc.sub(base + i), b); ex.store(st, r.loc.sub(base + j), a)
    return UNIT


@summary('slice::reverse')
def s_reverse(ex, st, fr, args, info):
    r = args[0]; n = ex.slice_len(st, r); base = r.rng[0] if r.rng else 0
    vals = [ex.load(st, r.loc.sub(base + i)) for i in range(n)]
    for i in range(n):
        ex.store(st, r.loc.sub(base + i), vals[n - 1 - i])
    return UNIT


@summary('slice::starts_with', 'slice::ends_with')
def s_starts_with(ex, st, fr, args, info):
    a = ex.slice_elems(st, args[0]); b = ex.slice_elems(st, args[1])
    if len(b) > len(a): return mkbool(False)
    part = a[:len(b)] if info['method'] == 'starts_with' else a[len(a) - len(b):]
    acc = mkbool(True)
    for x, y in zip(part, b):
        acc = binop('BitAnd', acc, binop('Eq', x, y))
    return acc


@summary('Vec::reserve', 'Vec::reserve_exact', 'Vec::shrink_to_fit')
def s_reserve(ex, st, fr, args, info):
    return UNIT


@summary('Vec::insert')
def s_vec_insert(ex, st, fr, args, info):
    loc = as_loc(args[0]); v = ex.load(st, loc); i = ex.conc_int(st, args[1])
    if i > len(v.e): lib_panic(ex, st, fr, 'insertion index out of range')
    ex.store(st, loc, Seq(v.kind, v.e[:i] + (args[2],) + v.e[i:]))
    return UNIT


@summary('Vec::remove')
def s_vec_remove(ex, st, fr, args, info):
    loc = as_loc(args[0]); v = ex.load(st, loc); i = ex.conc_int(st, args[1])
    if i >= len(v.e): lib_panic(ex, st, fr, 'removal index out of range')
    ex.store(st, loc, Seq(v.kind, v.e[:i] + v.e[i + 1:]))
    return v.e[i]


@summary('Vec::append')
def s_vec_append(ex, st, fr, args, info):
    a = as_loc(args[0]); b = as_loc(args[1])
    va = ex.load(st, a); vb = ex.load(st, b)
    ex.store(st, a, Seq(va.kind, va.e + vb.e)); ex.store(st, b, Seq(vb.kind, ()))
    return UNIT


@summary('Vec::split_off')
def s_vec_split_off(ex, st, fr, args, info):
    loc = as_loc(args[0]); v = ex.load(st, loc); k = ex.conc_int(st, args[1])
    if k > len(v.e): lib_panic(ex, st, fr, '`at` split index out of range')
    ex.store(st, loc, Seq(v.kind, v.e[:k]))
    return Seq('vec', v.e[k:])


@summary('Vec::into_boxed_slice', 'Vec::leak')
def s_into_boxed(ex, st, fr, args, info):
    return args[0]


# ---------------------------------------------------------------------------------------------- generators / more adaptors
@summary('repeat_with', 'core::iter::repeat_with', 'std::iter::repeat_with', 'iter::repeat_with')
def s_repeat_with(ex, st, fr, args, info):
    return It('repeat_with', args[0])


@summary('repeat', 'core::iter::repeat', 'std::iter::repeat', 'iter::repeat')
def s_repeat(ex, st, fr, args, info):
    return It('repeat', args[0])


@summary('repeat_n', 'core::iter::repeat_n', 'std::iter::repeat_n', 'iter::repeat_n')
def s_repeat_n(ex, st, fr, args, info):
    return It('list', tuple([args[0]] * ex.conc_int(st, args[1])), 0)


@summary('from_fn', 'core::iter::from_fn', 'std::iter::from_fn', 'iter::from_fn')
def s_from_fn(ex, st, fr, args, info):
    return It('from_fn', args[0])


@summary('once', 'core::iter::once', 'std::iter::once', 'iter::once')
def s_once(ex, st, fr, args, info):
    return It('list', (args[0],), 0)


@summary('empty', 'core::iter::empty', 'std::iter::empty', 'iter::empty')
def s_empty(ex, st, fr, args, info):
    return It('list', (), 0)


@summary('successors', 'core::iter::successors', 'std::iter::successors', 'iter::successors')
def s_successors(ex, st, fr, args, info):
    return It('successors', args[0], args[1])


@summary('Iterator::inspect')
def s_inspect(ex, st, fr, args, info):
    return It('inspect', to_iter(ex, st, args[0]), args[1])


@summary('Iterator::skip_while')
def s_skip_while(ex, st, fr, args, info):
    return It('skip_while', to_iter(ex, st, args[0]), args[1], True)


@summary('Iterator::map_while')
def s_map_while(ex, st, fr, args, info):
    return It('map_while', to_iter(ex, st, args[0]), args[1], True)


@summary('Iterator::scan')
def s_scan(ex, st, fr, args, info):
    cell = st.alloc(args[1])
    return It('scan', to_iter(ex, st, args[0]), cell, args[2], True)


@summary('Iterator::flat_map')
def s_flat_map(ex, st, fr, args, info):
    return It('flatten', It('map', to_iter(ex, st, args[0]), args[1]), None)


@summary('Iterator::flatten')
def s_flatten(ex, st, fr, args, info):
    return It('flatten', to_iter(ex, st, args[0]), None)


@summary('Iterator::min', 'Iterator::max')
def s_it_minmax(ex, st, fr, args, info):
    items = it_drain(ex, st, to_iter(ex, st, args[0]))
    if not items:
        return NONE
    items = [ex.deref(st, x) if isinstance(x, Ref) else x for x in items]
    if isinstance(args[0], It) or True:
        pass
    acc = items[0]
    for x in items[1:]:
        # ties: min keeps the first, max keeps the last (std semantics; indistinguishable for integers)
        c = binop('Le', acc, x) if info['method'] == 'min' else binop('Gt', acc, x)
        if c.conc:
            acc = acc if c.t else x
        else:
            from .values import bv
            acc = V(z3.If(c.t, bv(acc), bv(x)), acc.ty)
    return Some(acc)


@summary('Iterator::product')
def s_product(ex, st, fr, args, info):
    items = it_drain(ex, st, to_iter(ex, st, args[0]))
    m = re.search(r'product::<(\w+)>', info['raw'])
    ty = m.group(1) if m else None
    items = [ex.deref(st, x) if isinstance(x, Ref) else x for x in items]
    if not items:
        if ty in WIDTH: return mkint(1, ty)
        raise Unsupported('empty product of unknown type')
    acc = items[0]
    for x in items[1:]:
        acc = ex.checked_binop(st, fr, 'Mul', acc, x) if hasattr(ex, 'checked_binop') else binop('Mul', acc, x)
    return acc


@summary('Iterator::unzip')
def s_unzip(ex, st, fr, args, info):
    items = it_drain(ex, st, to_iter(ex, st, args[0]))
    return Tup(Seq('vec', [x.f[0] for x in items]), Seq('vec', [x.f[1] for x in items]))


@summary('Iterator::rposition')
def s_rposition(ex, st, fr, args, info):
    items = it_drain(ex, st, to_iter(ex, st, args[0]))
    for i in range(len(items) - 1, -1, -1):
        if ex.conc_bool(st, ex.call_value(st, args[1], [items[i]])):
            return Some(mkint(i, 'usize'))
    return NONE


@summary('Iterator::try_fold')
def s_try_fold(ex, st, fr, args, info):
    acc = args[1]
    it = to_iter(ex, st, ex.load(st, as_loc(args[0])) if isinstance(args[0], Ref) else args[0])
    while True:
        it, x = it_next(ex, st, it)
        if x is None:
            break
        r = ex.call_value(st, args[2], [acc, x])
        if isinstance(r, SymResult):
            if ex.conc_bool(st, V(r.err, 'bool')):
                return Err(r.errval)
            acc = r.ok; continue
        if not isinstance(r, Agg) or r.name not in ('Option', 'Result', 'ControlFlow'):
            raise Unsupported('try_fold step result %r' % (r,))
        if r.variant in ('None', 'Err', 'Break'):
            return r
        acc = r.f[0]
    m = re.search(r'try_fold::<[^,]*, [^,]*, (\w+)<', info['raw'])
    kind = m.group(1) if m else 'Option'
    return {'Option': Some, 'Result': Ok}.get(kind, lambda v: Agg('ControlFlow', 'Continue', (v,)))(acc)


@summary('Iterator::try_for_each')
def s_try_for_each(ex, st, fr, args, info):
    it = to_iter(ex, st, ex.load(st, as_loc(args[0])) if isinstance(args[0], Ref) else args[0])
    kind = None
    while True:
        it, x = it_next(ex, st, it)
        if x is None:
            break
        r = ex.call_value(st, args[1], [x])
        if isinstance(r, SymResult):
            if ex.conc_bool(st, V(r.err, 'bool')):
                return Err(r.errval)
            kind = 'Result'; continue
        if not isinstance(r, Agg) or r.name not in ('Option', 'Result', 'ControlFlow'):
            raise Unsupported('try_for_each step result %r' % (r,))
        kind = r.name
        if r.variant in ('None', 'Err', 'Break'):
            return r
    if kind is None:
        m = re.search(r'try_for_each::<[^,]*, (\w+)<', info['raw'])
        kind = m.group(1) if m else 'Result'
    return {'Option': Some(UNIT), 'Result': Ok(UNIT)}.get(kind, Agg('ControlFlow', 'Continue', (UNIT,)))


# ---------------------------------------------------------------------------------------------- integers
def _bits(v):
    from .values import bv
    return bv(v)


@summary('int::saturating_add')
def s_sat_add(ex, st, fr, args, info):
    a, b = args; w = WIDTH[a.ty]
    if a.conc and b.conc:
        lo, hi = (-(1 << (w - 1)), (1 << (w - 1)) - 1) if signed(a.ty) else (0, (1 << w) - 1)
        return mkint(max(lo, min(hi, a.t + b.t)), a.ty)
    x, y = _bits(a), _bits(b)
    if signed(a.ty):
        s = z3.SignExt(1, x) + z3.SignExt(1, y)
        hi = z3.BitVecVal((1 << (w - 1)) - 1, w + 1); lo = z3.BitVecVal(-(1 << (w - 1)), w + 1)
        r = z3.If(s > hi, hi, z3.If(s < lo, lo, s))
    else:
        s = z3.ZeroExt(1, x) + z3.ZeroExt(1, y)
        hi = z3.BitVecVal((1 << w) - 1, w + 1)
        r = z3.If(z3.UGT(s, hi), hi, s)
    return lift(simp(z3.Extract(w - 1, 0, r)), a.ty)


def s_sat_sub_signed(ex, st, fr, args, info):
    a, b = args; w = WIDTH[a.ty]
    if not signed(a.ty):
        return _old_sat_sub(ex, st, fr, args, info)
    if a.conc and b.conc:
        return mkint(max(-(1 << (w - 1)), min((1 << (w - 1)) - 1, a.t - b.t)), a.ty)
    s = z3.SignExt(1, _bits(a)) - z3.SignExt(1, _bits(b))
    hi = z3.BitVecVal((1 << (w - 1)) - 1, w + 1); lo = z3.BitVecVal(-(1 << (w - 1)), w + 1)
    return lift(simp(z3.Extract(w - 1, 0, z3.If(s > hi, hi, z3.If(s < lo, lo, s)))), a.ty)


_old_sat_sub = S['int::saturating_sub']
S['int::saturating_sub'] = s_sat_sub_signed


@summary('int::wrapping_neg')
def s_wrapping_neg(ex, st, fr, args, info):
    a = args[0]
    if a.conc: return mkint(-a.t, a.ty)
    return lift(simp(-_bits(a)), a.ty)


@summary('int::wrapping_abs')
def s_wrapping_abs(ex, st, fr, args, info):
    a = args[0]
    if a.conc: return mkint(abs(a.t), a.ty)
    return lift(simp(z3.If(a.t < 0, -a.t, a.t)), a.ty)


@summary('int::wrapping_shl', 'int::wrapping_shr')
def s_wrapping_shift(ex, st, fr, args, info):
    return binop('Shl' if info['method'] == 'wrapping_shl' else 'Shr', args[0], args[1])


@summary('int::checked_shl', 'int::checked_shr')
def s_checked_shift(ex, st, fr, args, info):
    w = WIDTH[args[0].ty]
    big = binop('Ge', args[1], mkint(w, args[1].ty))
    if ex.conc_bool(st, big): return NONE
    return Some(binop('Shl' if info['method'] == 'checked_shl' else 'Shr', args[0], args[1]))


@summary('int::checked_div', 'int::checked_rem', 'int::checked_neg')
def s_checked_div(ex, st, fr, args, info):
    a = args[0]; w = WIDTH[a.ty]
    if info['method'] == 'checked_neg':
        bad = binop('Eq', a, mkint(-(1 << (w - 1)), a.ty)) if signed(a.ty) else binop('Ne', a, mkint(0, a.ty))
        if ex.conc_bool(st, bad): return NONE
        return Some(s_wrapping_neg(ex, st, fr, [a], info))
    b = args[1]
    if ex.conc_bool(st, binop('Eq', b, mkint(0, b.ty))): return NONE
    if signed(a.ty):
        ov = binop('BitAnd', binop('Eq', a, mkint(-(1 << (w - 1)), a.ty)), binop('Eq', b, mkint(-1, b.ty)))
        if ex.conc_bool(st, ov): return NONE
    return Some(binop('Div' if info['method'] == 'checked_div' else 'Rem', a, b))


@summary('int::leading_ones', 'int::trailing_ones', 'int::count_zeros')
def s_ones(ex, st, fr, args, info):
    a = args[0]; w = WIDTH[a.ty]
    inv = mkint(~a.t, a.ty) if a.conc else lift(simp(~_bits(a)), a.ty)
    i2 = dict(info); i2['method'] = {'leading_ones': 'leading_zeros', 'trailing_ones': 'trailing_zeros', 'count_zeros': 'count_ones'}[info['method']]
    return S['int::leading_zeros'](ex, st, fr, [inv], i2)


@summary('int::rotate_left', 'int::rotate_right')
def s_rotate(ex, st, fr, args, info):
    a = args[0]; w = WIDTH[a.ty]; k = ex.conc_int(st, args[1]) % w
    if info['method'] == 'rotate_right': k = (w - k) % w
    if a.conc:
        u = a.t & ((1 << w) - 1)
        return mkint(((u << k) | (u >> (w - k))) & ((1 << w) - 1), a.ty)
    return lift(simp(z3.RotateLeft(_bits(a), k)), a.ty)


@summary('int::swap_bytes', 'int::reverse_bits')
def s_swap_bytes(ex, st, fr, args, info):
    a = args[0]; w = WIDTH[a.ty]
    if a.conc:
        u = a.t & ((1 << w) - 1)
        if info['method'] == 'swap_bytes':
            return mkint(int.from_bytes(u.to_bytes(w // 8, 'big'), 'little'), a.ty)
        return mkint(int(format(u, '0%db' % w)[::-1], 2), a.ty)
    t = _bits(a)
    if info['method'] == 'swap_bytes':
        parts = [z3.Extract(8 * i + 7, 8 * i, t) for i in range(w // 8)]
    else:
        parts = [z3.Extract(i, i, t) for i in range(w)]
    return lift(simp(z3.Concat(*parts)) if len(parts) > 1 else t, a.ty)


@summary('int::signum')
def s_signum(ex, st, fr, args, info):
    a = args[0]; w = WIDTH[a.ty]
    if a.conc: return mkint((a.t > 0) - (a.t < 0), a.ty)
    return lift(simp(z3.If(a.t > 0, z3.BitVecVal(1, w), z3.If(a.t < 0, z3.BitVecVal(-1, w), z3.BitVecVal(0, w)))), a.ty)


@summary('int::is_negative', 'int::is_positive')
def s_is_negative(ex, st, fr, args, info):
    return binop('Lt' if info['method'] == 'is_negative' else 'Gt', args[0], mkint(0, args[0].ty))


@summary('int::abs_diff')
def s_abs_diff(ex, st, fr, args, info):
    a, b = args; w = WIDTH[a.ty]; uty = 'u' + a.ty[1:]
    if a.conc and b.conc: return mkint(abs(a.t - b.t), uty)
    x, y = _bits(a), _bits(b)
    lt = (x < y) if signed(a.ty) else z3.ULT(x, y)
    return lift(simp(z3.If(lt, y - x, x - y)), uty)


@summary('Ord::clamp', 'int::clamp')
def s_clamp(ex, st, fr, args, info):
    a, lo, hi = args
    if ex.conc_bool(st, binop('Gt', lo, hi)): lib_panic(ex, st, fr, 'assertion failed: min <= max')
    i1 = dict(info); i1['method'] = 'max'; i2 = dict(info); i2['method'] = 'min'
    return S['Ord::min'](ex, st, fr, [S['Ord::max'](ex, st, fr, [a, lo], i1), hi], i2)


@summary('int::is_multiple_of')
def s_is_multiple_of(ex, st, fr, args, info):
    a, b = args
    if ex.conc_bool(st, binop('Eq', b, mkint(0, b.ty))):
        return binop('Eq', a, mkint(0, a.ty))
    return binop('Eq', binop('Rem', a, b), mkint(0, a.ty))


@summary('int::next_power_of_two')
def s_next_pow2(ex, st, fr, args, info):
    a = ex.conc_int(st, args[0])
    r = 1
    while r < a: r <<= 1
    return mkint(r, args[0].ty)


@summary('core::cmp::min', 'core::cmp::max', 'std::cmp::min', 'std::cmp::max', 'cmp::min', 'cmp::max', 'min', 'max')
def s_cmp_minmax(ex, st, fr, args, info):
    return S['Ord::min'](ex, st, fr, args, info)


# ---------------------------------------------------------------------------------------------- arrays / tuples
@summary('array::map')
def s_array_map(ex, st, fr, args, info):
    v = args[0]
    if not isinstance(v, Seq):
        raise Unsupported('array::map of %r' % (v,))
    return Seq('arr', [ex.call_value(st, args[1], [x]) for x in v.e])


@summary('array::iter', 'array::as_slice', 'array::each_ref')
def s_array_iter(ex, st, fr, args, info):
    if info['method'] == 'iter':
        return S['slice::iter'](ex, st, fr, args, info)
    if info['method'] == 'as_slice':
        return args[0]
    r = args[0]; n = ex.slice_len(st, r)
    return Seq('arr', [Ref(r.loc.sub(i)) for i in range(n)])


@summary('array::from_fn', 'core::array::from_fn', 'std::array::from_fn')
def s_array_from_fn(ex, st, fr, args, info):
    m = re.search(r'from_fn::<[^,]+, (\d+)', info['raw'])
    if not m:
        raise Unsupported('array::from_fn length in ' + info['raw'])
    return Seq('arr', [ex.call_value(st, args[0], [mkint(i, 'usize')]) for i in range(int(m.group(1)))])


@summary('Itertools::collect_tuple')
def s_collect_tuple(ex, st, fr, args, info):
    items = it_drain(ex, st, to_iter(ex, st, args[0]))
    m = re.search(r'collect_tuple::<\((.*)\)>', info['raw'])
    want = None
    if m:
        from .mir import split_top
        want = len([x for x in split_top(m.group(1)) if x.strip()])
    if want is None:
        raise Unsupported('collect_tuple arity in ' + info['raw'])
    return Some(Tup(*items)) if len(items) == want else NONE


@summary('Itertools::next_tuple')
def s_next_tuple(ex, st, fr, args, info):
    raise Unsupported('Itertools::next_tuple')


# ---------------------------------------------------------------------------------------------- ranges
def _range_contains(ex, st, fr, args, info):
    r = args[0] if isinstance(args[0], Agg) else ex.deref(st, args[0])
    x = args[1] if isinstance(args[1], V) else ex.deref(st, args[1])
    if not isinstance(r, Agg) or not isinstance(x, V):
        raise Unsupported('Range::contains on %r' % (r,))
    acc = mkbool(True)
    if r.name in ('Range', 'RangeInclusive', 'RangeFrom'):
        acc = binop('BitAnd', acc, binop('Le', r.f[0], x))
    if r.name == 'Range':
        acc = binop('BitAnd', acc, binop('Lt', x, r.f[1]))
    elif r.name == 'RangeInclusive':
        acc = binop('BitAnd', acc, binop('Le', x, r.f[1]))
    elif r.name == 'RangeTo':
        acc = binop('BitAnd', acc, binop('Lt', x, r.f[0]))
    elif r.name == 'RangeToInclusive':
        acc = binop('BitAnd', acc, binop('Le', x, r.f[0]))
    elif r.name not in ('RangeFrom', 'RangeFull'):
        raise Unsupported('contains on ' + r.name)
    return acc


for _k in ('Range', 'RangeInclusive', 'RangeFrom', 'RangeTo', 'RangeToInclusive', 'RangeFull'):
    for _pre in ('', 'std::ops::', 'core::ops::', 'std::ops::range::', 'core::ops::range::'):
        S['%s%s::contains' % (_pre, _k)] = _range_contains
S['RangeBounds::contains'] = _range_contains

from .mir import Program, dump_mir, layouts
from .interp import Exec, State, Frame, PathEnd, Unsupported
from .summaries import S as SUMMARIES
from .values import *


def load_program(fresh=True):
    import os
    from .mir import MIR_FILE
    if fresh or not os.path.exists(MIR_FILE):
        text, secs = dump_mir()
    else:
        text, secs = open(MIR_FILE).read(), 0.0
    return Program(text), secs


def new_exec(prog, overrides=None):
    return Exec(prog, SUMMARIES, overrides or {}, layouts())


def run_with_defer(build_and_run, max_rounds=4):
    """build_and_run(nodefer_sites) -> (ex, result). Runs optimistically with stand-alone obligations deferred and
    batched; obligations that are not valid on their own are re-run with an immediate check under the path condition."""
    sites = set()
    for _ in range(max_rounds):
        ex, res = build_and_run(sites)
        failing = ex.flush_deferred()
        if not failing:
            return ex, res
        sites |= failing
    ex, res = build_and_run(None)      # None = no deferral at all
    return ex, res

"""Value model of mirsym: scalars (python ints/bools when concrete, z3 terms when symbolic), aggregates,
containers (immutable tuples), references (root + path), iterators."""
import z3

WIDTH = {'u8': 8, 'i8': 8, 'u16': 16, 'i16': 16, 'u32': 32, 'i32': 32, 'u64': 64, 'i64': 64, 'usize': 64, 'isize': 64,
         'u128': 128, 'i128': 128}


def is_int_ty(ty):
    return ty in WIDTH


def signed(ty):
    return ty[0] == 'i'


def norm(x, ty):
    w = WIDTH[ty]
    x &= (1 << w) - 1
    if signed(ty) and x >> (w - 1):
        x -= 1 << w
    return x


class Unsupported(Exception):
    pass


class V:
    """scalar: int / bool / f64. t is a python value when concrete, else a z3 term"""
    __slots__ = ('t', 'ty')

    def __init__(self, t, ty):
        self.t = t; self.ty = ty

    def __repr__(self):
        return 'V(%s:%s)' % (self.t, self.ty)

    @property
    def conc(self):
        return isinstance(self.t, (int, bool, float))


def mkint(v, ty):
    return V(norm(int(v), ty), ty)


def mkbool(b):
    return V(bool(b), 'bool')


UNIT = None


def bv(v):
    """z3 bit-vector term of an integer V"""
    if isinstance(v.t, bool):
        return z3.BitVecVal(int(v.t), 8)
    if isinstance(v.t, int):
        return z3.BitVecVal(v.t, WIDTH[v.ty])
    return v.t


def bl(v):
    if isinstance(v.t, bool):
        return z3.BoolVal(v.t)
    return v.t


def fp(v):
    if isinstance(v.t, float):
        return z3.FPVal(v.t, z3.Float64())
    return v.t


NOSIMP = [False]      # scenarios that hand their queries to an integer-encoding solver keep the terms as the code wrote them


def simp(t):
    if NOSIMP[0]:
        return t
    return z3.simplify(t)


def lift(t, ty):
    """wrap a z3 term; fold to python value if it is a literal"""
    if ty == 'bool':
        if z3.is_true(t): return V(True, ty)
        if z3.is_false(t): return V(False, ty)
        return V(t, ty)
    if ty in WIDTH:
        if z3.is_bv_value(t):
            return V(norm(t.as_long(), ty), ty)
        return V(t, ty)
    return V(t, ty)


class Agg:
    """struct / tuple / enum value (immutable)"""
    __slots__ = ('name', 'variant', 'f')

    def __init__(self, name, variant, fields):
        self.name = name; self.variant = variant; self.f = tuple(fields)

    def __repr__(self):
        return 'Agg(%s%s%s)' % (self.name, '::' + str(self.variant) if self.variant is not None else '', list(self.f))

    def with_field(self, i, v):
        f = list(self.f); f[i] = v
        return Agg(self.name, self.variant, f)


def Some(x): return Agg('Option', 'Some', (x,))
NONE = Agg('Option', 'None', ())
def Ok(x): return Agg('Result', 'Ok', (x,))
def Err(x): return Agg('Result', 'Err', (x,))
def Tup(*xs): return Agg('tuple', None, xs)


class Seq:
    """array / Vec / BitVec contents: immutable tuple of values. kind in {'arr','vec','bitvec'}"""
    __slots__ = ('kind', 'e')

    def __init__(self, kind, elems):
        self.kind = kind; self.e = tuple(elems)

    def __repr__(self):
        return 'Seq(%s,len=%d)' % (self.kind, len(self.e))

    def __len__(self):
        return len(self.e)


class Loc:
    """a place: root ('L', frame id, local) | ('H', cell) | ('T', value) and a path of integer steps"""
    __slots__ = ('root', 'path')

    def __init__(self, root, path=()):
        self.root = root; self.path = tuple(path)

    def __repr__(self):
        return 'Loc(%s,%s)' % (self.root, self.path)

    def sub(self, i):
        return Loc(self.root, self.path + (i,))


class Ref:
    """reference / raw pointer / Box. rng = (start, len) for slice references (fat pointers)"""
    __slots__ = ('loc', 'rng')

    def __init__(self, loc, rng=None):
        self.loc = loc; self.rng = rng

    def __repr__(self):
        return 'Ref(%s%s)' % (self.loc, (',rng=%s' % (self.rng,)) if self.rng else '')


def temp_ref(val, rng=None):
    return Ref(Loc(('T', val)), rng)


class Closure:
    __slots__ = ('fn', 'caps')

    def __init__(self, fn, caps=()):
        self.fn = fn; self.caps = tuple(caps)

    def __repr__(self):
        return 'Closure(%s)' % self.fn


class FnItem:
    __slots__ = ('name',)

    def __init__(self, name):
        self.name = name

    def __repr__(self):
        return 'FnItem(%s)' % self.name


class Opaque:
    """library object with a python-side state (immutable tuple `data`)"""
    __slots__ = ('kind', 'data')

    def __init__(self, kind, data=()):
        self.kind = kind; self.data = data

    def __repr__(self):
        return 'Opaque(%s)' % self.kind


class It:
    """iterator value (immutable): kind + fields"""
    __slots__ = ('kind', 'a')

    def __init__(self, kind, *a):
        self.kind = kind; self.a = a

    def __repr__(self):
        return 'It(%s)' % self.kind


class SymResult:
    """Result (or, with opt=True, Option) whose discriminant is symbolic: Err / None iff `err` (z3 Bool); payloads for both sides"""
    __slots__ = ('err', 'ok', 'errval', 'opt')

    def __init__(self, err, ok, errval, opt=False):
        self.err = err; self.ok = ok; self.errval = errval; self.opt = opt

"""Parallel scenario runner for engine M: each scenario is (module, function, kwargs) executed in a worker process
that parses the (already dumped) MIR file itself; results are plain dicts."""
import importlib, os, sys, time, traceback
from concurrent.futures import ProcessPoolExecutor, as_completed


def _work(job):
    mod, fn, kw = job
    sys.setrecursionlimit(1000000)
    import threading
    threading.stack_size(1 << 29)
    out = {}

    def body():
        t0 = time.time()
        try:
            m = importlib.import_module(mod)
            r = getattr(m, fn)(**kw)
            r.setdefault('error', None)
        except Exception as e:
            r = {'error': '%s: %s' % (type(e).__name__, e), 'trace': traceback.format_exc()[-1500:]}
        r['job'] = (fn, {k: v for k, v in kw.items() if k != 'prog'})
        r['wall_s'] = time.time() - t0
        out['r'] = r
    t = threading.Thread(target=body)
    t.start(); t.join()
    return out['r']


def run_jobs(jobs, workers=16, order_seed=0):
    """jobs: list of (module, function, kwargs). Returns list of result dicts (same order)."""
    if not jobs:
        return []
    idx = list(range(len(jobs)))
    if order_seed:
        import random
        random.Random(order_seed).shuffle(idx)
    res = [None] * len(jobs)
    if workers <= 1 or len(jobs) == 1:
        for i in idx:
            res[i] = _work(jobs[i])
        return res
    with ProcessPoolExecutor(max_workers=min(workers, len(jobs))) as ex:
        futs = {ex.submit(_work, jobs[i]): i for i in idx}
        for f in as_completed(futs):
            res[futs[f]] = f.result()
    return res

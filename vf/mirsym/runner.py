"""Parallel scenario runner for engine M: each scenario is (module, function, kwargs) executed in a worker process
that parses the (already dumped) MIR file itself; results are plain dicts."""
import importlib, os, sys, time, traceback
from concurrent.futures import ProcessPoolExecutor, as_completed


def _work(job):
    mod, fn, kw = job
    sys.setrecursionlimit(1000000)
    import threading
    threading.stack_size(1 << 29)
    out = {}

    def body():
        t0 = time.time()
        try:
            m = importlib.import_module(mod)
            r = getattr(m, fn)(**kw)
            r.setdefault('error', None)
        except Exception as e:
            r = {'error': '%s: %s' % (type(e).__name__, e), 'trace': traceback.format_exc()[-1500:]}
        r['job'] = (fn, {k: v for k, v in kw.items() if k != 'prog'})
        r['wall_s'] = time.time() - t0
        out['r'] = r
    t = threading.Thread(target=body)
    t.start(); t.join()
    return out['r']


def run_jobs(jobs, workers=16, order_seed=0, on_result=None):
    """jobs: list of (module, function, kwargs). Returns list of result dicts (same order).
    on_result(job, result) is called in the parent as results arrive; when it returns True the remaining jobs are cancelled
    (their entries stay None) - used to stop a run as soon as a violation has been replayed."""
    if not jobs:
        return []
    idx = list(range(len(jobs)))
    if order_seed:
        import random
        random.Random(order_seed).shuffle(idx)
    res = [None] * len(jobs)
    if workers <= 1 or len(jobs) == 1:
        for i in idx:
            res[i] = _work(jobs[i])
            if on_result and on_result(jobs[i], res[i]):
                break
        return res
    ex = ProcessPoolExecutor(max_workers=min(workers, len(jobs)))
    stopped = False
    try:
        futs = {ex.submit(_work, jobs[i]): i for i in idx}
        for f in as_completed(futs):
            res[futs[f]] = f.result()
            if on_result and on_result(jobs[futs[f]], res[futs[f]]):
                stopped = True
                break
    finally:
        if stopped:
            procs = list(getattr(ex, '_processes', {}).values())
            ex.shutdown(wait=False, cancel_futures=True)
            for p in procs:
                try: p.kill()
                except Exception: pass
        else:
            ex.shutdown(wait=True)
    return res

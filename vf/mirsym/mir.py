"""Parser for rustc's `-Zunpretty=mir` text output (the parts this project needs).

The dump is regenerated from /repo's working tree (guard OFF, overflow checks ON) on every run; nothing here is
cached across runs except inside one process."""
import hashlib, os, re
from ..common import *

MIR_TARGET = os.path.join(BUILD, 'mir-target')
MIR_FILE = os.path.join(BUILD, 'falcon.mir')


def dump_mir(force=True):
    """(re)dump the MIR of the library as users build it: no verif cfg, overflow checks on."""
    os.makedirs(BUILD, exist_ok=True)
    lib = os.path.join(CRATE, 'src', 'lib.rs')
    # rustc only re-emits when something changed; force by touching lib.rs's mtime copy-free
    os.utime(lib, None)
    cmd = ['cargo', '+nightly', 'rustc', '--offline', '--lib', '--', '-Zunpretty=mir', '-C', 'debug-assertions=off', '-C', 'overflow-checks=on']
    e = env_offline({'CARGO_TARGET_DIR': MIR_TARGET})
    import subprocess, time
    t0 = time.time()
    p = subprocess.run(cmd, cwd=CRATE, env=e, stdout=subprocess.PIPE, stderr=subprocess.PIPE, text=True, timeout=1200)
    if p.returncode != 0 or len(p.stdout) < 1000:
        raise Inconclusive('MIR dump failed: rc=%s\n%s' % (p.returncode, p.stderr[-3000:]))
    open(MIR_FILE, 'w').write(p.stdout)
    return p.stdout, time.time() - t0


# ---------------------------------------------------------------------------------------------- helpers
def split_top(s, sep=','):
    """split at top-level separators (outside () [] {} <> and string literals)"""
    out, depth, cur, i, n = [], 0, [], 0, len(s)
    instr = False
    while i < n:
        ch = s[i]
        if instr:
            cur.append(ch)
            if ch == '\\':
                cur.append(s[i + 1]); i += 1
            elif ch == '"':
                instr = False
        elif ch == '"':
            instr = True; cur.append(ch)
        elif ch in '([{':
            depth += 1; cur.append(ch)
        elif ch in ')]}':
            depth -= 1; cur.append(ch)
        elif ch == '<':
            depth += 1; cur.append(ch)
        elif ch == '>' and i > 0 and s[i - 1] not in '-=':
            depth -= 1; cur.append(ch)
        elif ch == sep and depth == 0:
            out.append(''.join(cur).strip()); cur = []
        else:
            cur.append(ch)
        i += 1
    last = ''.join(cur).strip()
    if last:
        out.append(last)
    return out


def match_close(s, i):
    """s[i] is an opening bracket; return index of its matching close"""
    op = s[i]; cl = {'(': ')', '[': ']', '{': '}', '<': '>'}[op]
    d = 0
    instr = False
    j = i
    while j < len(s):
        c = s[j]
        if instr:
            if c == '\\': j += 1
            elif c == '"': instr = False
        elif c == '"':
            instr = True
        elif c == op: d += 1
        elif c == cl:
            if not (op == '<' and s[j - 1] in '-='):
                d -= 1
                if d == 0: return j
        j += 1
    raise ValueError('unbalanced %r in %r' % (op, s))


class MirFn:
    __slots__ = ('name', 'kind', 'params', 'ret', 'types', 'blocks', 'text', 'closure_ty', 'simple_const', 'key', 'hash', '_parsed')

    def __init__(self):
        self.types = {}; self.blocks = {}; self.params = []; self.closure_ty = None; self.simple_const = None; self._parsed = {}; self.key = None; self.kind = None; self.name = None; self.ret = None

    def __repr__(self):
        return 'MirFn(%s)' % self.name


class Program:
    def __init__(self, text):
        self.text = text
        self.items = {}          # definition name -> MirFn (first non-CTFE definition wins)
        self.by_key = {}         # call key -> MirFn
        self.closures = {}       # closure type string -> MirFn
        self._src = {}
        self._parse(text)
        self._index()

    # ------------------------------------------------------------------ parsing
    def _parse(self, text):
        lines = text.split('\n')
        i, n = 0, len(lines)
        ctfe = False
        while i < n:
            ln = lines[i]
            if ln.startswith('// MIR FOR CTFE'):
                ctfe = True; i += 1; continue
            if ln.startswith(('fn ', 'const ', 'static ')):
                j = i
                if ln.rstrip().endswith('{'):
                    while lines[j] != '}':
                        j += 1
                body = lines[i:j + 1]
                if not ctfe:
                    self._item(body)
                ctfe = False
                i = j + 1
                continue
            i += 1

    def _item(self, body):
        head = body[0]
        f = MirFn()
        f.text = '\n'.join(body)
        f.hash = hashlib.sha1(f.text.encode()).hexdigest()[:12]
        if head.startswith('fn '):
            f.kind = 'fn'
            p = head.index('(', 3) if '<impl at' not in head else head.index('(', head.index('>::') if '>::' in head else 3)
            # name may contain '<impl at ...>' (no parens inside) and '{closure#0}'
            f.name = head[3:p]
            q = match_close(head, p)
            args = head[p + 1:q]
            for a in split_top(args):
                m = re.match(r'(_\d+): (.*)', a)
                f.params.append(m.group(1)); f.types[m.group(1)] = m.group(2)
            m = re.match(r'\s*->\s*(.*?)\s*\{$', head[q + 1:])
            f.ret = m.group(1) if m else '()'
            if '{closure#' in f.name and f.params:
                t = f.types[f.params[0]]
                m = re.search(r'\{closure@[^}]*\}', t)
                if m: f.closure_ty = m.group(0)
        else:
            f.kind = 'const'
            h2 = re.sub(r'^(?:const|static)(?: mut)? ', '', head)
            k0 = 0
            if '<impl at' in h2:
                k0 = h2.index('>', h2.index('<impl at'))
            k1 = h2.find(': ', k0)
            m = re.match(r'(.*?) = (.*)$', h2[k1 + 2:]) if k1 >= 0 else None
            if not m:
                return
            f.name, f.ret, rest = h2[:k1], m.group(1), m.group(2)
            if not rest.rstrip().endswith('{'):
                f.simple_const = rest.rstrip().rstrip(';')
        cur = None
        for ln in body[1:]:
            s = ln.strip()
            if not s or s.startswith(('debug ', 'scope ', 'StorageLive', 'StorageDead', '//')):
                continue
            m = re.match(r'let (?:mut )?(_\d+): (.*);$', s)
            if m and cur is None:
                f.types[m.group(1)] = m.group(2); continue
            m = re.match(r'(bb\d+)( \(cleanup\))?: \{$', s)
            if m:
                cur = m.group(1); f.blocks[cur] = []; continue
            if s == '}':
                cur = None; continue
            if cur is not None:
                # strip trailing comments
                f.blocks[cur].append(s)
        self.items.setdefault(f.name, f)

    # ------------------------------------------------------------------ indexing (impl headers -> call keys)
    def _srcspan(self, path, l0, c0, l1, c1):
        full = os.path.join(REPO, path)   # spans are relative to the workspace root
        if full not in self._src:
            self._src[full] = open(full).read().split('\n')
        L = self._src[full]
        if l0 == l1:
            return L[l0 - 1][c0 - 1:c1 - 1]
        parts = [L[l0 - 1][c0 - 1:]] + L[l0:l1 - 1] + [L[l1 - 1][:c1 - 1]]
        return ' '.join(parts)

    def _impl_key(self, implspan):
        m = re.match(r'impl at (.*?):(\d+):(\d+): (\d+):(\d+)', implspan)
        hdr = self._srcspan(m.group(1), int(m.group(2)), int(m.group(3)), int(m.group(4)), int(m.group(5)))
        if hdr.startswith('#[derive') or not hdr.startswith('impl'):
            # derive macro: span points at the derive attribute; the trait is the span text itself (e.g. `Clone`)
            return ('derive', hdr.strip())
        h = hdr[4:].strip()
        if h.startswith('<'):
            h = h[match_close(h, 0) + 1:].strip()
        h = re.split(r'\bwhere\b', h)[0].strip()
        m = re.match(r'(.*?)\s+for\s+(.*)$', h)

        def base(t):
            t = t.strip()
            amp = '&' if t.startswith('&') else ''
            t = t.lstrip('&').strip()
            t = re.sub(r"^'\w+ ", '', t)
            t = re.sub(r'^mut ', '', t)
            return amp + re.sub(r'<.*$', '', t).split('::')[-1].strip()
        if m:
            return ('trait', base(m.group(1)), base(m.group(2)), m.group(1).strip(), m.group(2).strip())
        return ('inherent', base(h))

    def _index(self):
        self.const_by_key = {}
        for name, f in self.items.items():
            if f.kind == 'const':
                # associated constants of impl blocks: `mod::<impl at file:l:c>::NAME`, referred to as `mod::Type::<..>::NAME`
                m = re.match(r'(.*?)<(impl at [^>]*)>::(\w+)$', name)
                if m:
                    try:
                        k = self._impl_key(m.group(2))
                    except Exception:
                        continue
                    tyname = k[1] if k[0] == 'inherent' else (k[2] if k[0] == 'trait' else None)
                    if tyname:
                        self.const_by_key.setdefault('%s::%s' % (tyname.lstrip('&'), m.group(3)), f)
                continue
            if f.kind != 'fn':
                continue
            if f.closure_ty:
                self.closures.setdefault(f.closure_ty, f)
            m = re.match(r'(.*?)<(impl at [^>]*)>::(.*)$', name)
            if m:
                try:
                    k = self._impl_key(m.group(2))
                except Exception as e:   # source not readable: leave unindexed
                    continue
                rest = m.group(3)
                if k[0] == 'inherent':
                    key = '%s::%s' % (k[1], rest)
                elif k[0] == 'trait':
                    key = '<%s as %s>::%s' % (k[2], k[1], rest)
                    # also a fully typed key to disambiguate e.g. Mul<&Polynomial<F>> vs Mul<Polynomial<F>>
                    self.by_key.setdefault('<%s as %s>::%s' % (k[4], k[3], rest), f)
                else:
                    key = 'derive:%s:%s' % (k[1], rest)
                f.key = key
                self.by_key.setdefault(key, f)
            else:
                f.key = name
                self.by_key.setdefault(name, f)

    # ------------------------------------------------------------------ lookup
    @staticmethod
    def strip_generics(path):
        """remove ::<...> turbofish groups and <...> type arguments from a path"""
        out = []; i = 0
        while i < len(path):
            if path.startswith('::<', i) and not path.startswith('::<impl ', i):
                i = match_close(path, i + 2) + 1; continue
            out.append(path[i]); i += 1
        return ''.join(out)

    def find_const(self, opname, curfn=None):
        """resolve a named const/static/promoted operand path to its item"""
        m = re.search(r'promoted\[(\d+)\]$', opname)
        if m and curfn is not None:
            base = curfn.name
            base = re.sub(r'::\{closure#\d+\}.*$', '', base) if False else base
            for cand in (base + '::promoted[%s]' % m.group(1),):
                if cand in self.items:
                    return self.items[cand]
            # trimmed-path definitions: match by function's last segments
            tail = curfn.name.split('>::')[-1] if '>::' in curfn.name else curfn.name
            for nm, it in self.items.items():
                if nm.endswith('promoted[%s]' % m.group(1)) and (nm.startswith(tail + '::') or ('::' + tail + '::') in nm or nm == tail + '::promoted[%s]' % m.group(1)):
                    return it
            raise KeyError('promoted ' + opname + ' in ' + curfn.name)
        if opname in self.items:
            return self.items[opname]
        segs = opname.split('::')
        for k in range(1, len(segs)):
            cand = '::'.join(segs[k:])
            if cand in self.items and self.items[cand].kind == 'const':
                return self.items[cand]
        if len(segs) >= 2:
            cand = '%s::%s' % (re.sub(r'<.*$', '', segs[-2]), segs[-1])
            if cand in getattr(self, 'const_by_key', {}):
                return self.const_by_key[cand]
        raise KeyError('const ' + opname)


def layouts(src_dir=None):
    """struct field orders and enum variant orders parsed from the crate's source (needed because MIR prints
    field accesses by index and struct literals by name)"""
    src_dir = src_dir or os.path.join(CRATE, 'src')
    structs, enums = {}, {}
    for fn in sorted(os.listdir(src_dir)):
        if not fn.endswith('.rs'):
            continue
        txt = open(os.path.join(src_dir, fn)).read()
        txt = re.sub(r'//[^\n]*', '', txt)
        for m in re.finditer(r'\bstruct\s+(\w+)\s*(?:<[^>{]*>)?\s*(?:where[^{]*)?\{', txt):
            j = match_close(txt, m.end() - 1)
            body = txt[m.end():j]
            fields = []
            for part in split_top(body):
                part = re.sub(r'#\[[^\]]*\]', '', part).strip()
                mm = re.match(r'(?:pub(?:\([^)]*\))?\s+)?(\w+)\s*:', part)
                if mm: fields.append(mm.group(1))
            structs.setdefault(m.group(1), fields)
        for m in re.finditer(r'\benum\s+(\w+)\s*(?:<[^>{]*>)?\s*\{', txt):
            j = match_close(txt, m.end() - 1)
            body = txt[m.end():j]
            vs = []
            for part in split_top(body):
                part = re.sub(r'#\[[^\]]*\]', '', part).strip()
                mm = re.match(r'(\w+)', part)
                if mm: vs.append(mm.group(1))
            enums.setdefault(m.group(1), vs)
    enums.setdefault('ControlFlow', ['Continue', 'Break'])
    return {'structs': structs, 'enums': enums}

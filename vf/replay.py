"""Engine R: native replay driver (dev profile with overflow checks, and release)."""
import os, subprocess, threading
from .common import *

TARGET = os.path.join(BUILD, 'replay-target')
_built = {}
_lock = threading.Lock()


def build(profile='dev'):
    with _lock:
        if profile in _built:
            return _built[profile]
        manifest = os.path.join(VERIF, 'replay', 'Cargo.toml')
        if REPO != '/repo':
            # scratch trial: same driver, path dependency redirected to the scratch tree
            d = os.path.join(BUILD, 'replay-src'); os.makedirs(os.path.join(d, 'src'), exist_ok=True)
            open(os.path.join(d, 'Cargo.toml'), 'w').write(open(manifest).read().replace('/repo/falcon-rust', CRATE))
            open(os.path.join(d, 'src', 'main.rs'), 'w').write(open(os.path.join(VERIF, 'replay', 'src', 'main.rs')).read())
            import shutil
            shutil.copy(os.path.join(REPO, 'Cargo.lock'), os.path.join(d, 'Cargo.lock'))
            manifest = os.path.join(d, 'Cargo.toml')
        cmd = ['cargo', 'build', '--offline', '--target-dir', TARGET, '--manifest-path', manifest]
        if profile == 'release':
            cmd.append('--release')
        # keep the lock file in step with the repository's
        try:
            src = open(os.path.join(REPO, 'Cargo.lock')).read()
        except OSError:
            src = None
        rc, out, secs = run(cmd, timeout=1200, env=env_offline({'RUSTFLAGS': '--cfg ' + GUARD}))
        if rc != 0:
            raise Inconclusive('replay driver build failed (%s):\n%s' % (profile, out[-2000:]))
        path = os.path.join(TARGET, 'release' if profile == 'release' else 'debug', 'verif-replay')
        _built[profile] = path
        return path


def call(reqs, profile='dev', timeout=300):
    """reqs: list of argv lists -> list of reply strings. Each request runs in the same process unless
    one aborts it; aborted requests are retried one by one so a crash is attributed correctly."""
    exe = build(profile)
    inp = ''.join('\t'.join(str(a) for a in r) + '\n' for r in reqs)
    p = subprocess.run([exe], input=inp, stdout=subprocess.PIPE, stderr=subprocess.PIPE, text=True, timeout=timeout)
    lines = p.stdout.split('\n')
    if lines and lines[-1] == '':
        lines.pop()
    if len(lines) == len(reqs):
        return lines
    out = []
    for r in reqs:
        q = subprocess.run([exe] + [str(a) for a in r], stdout=subprocess.PIPE, stderr=subprocess.PIPE, text=True, timeout=timeout)
        out.append(q.stdout.strip() if q.returncode == 0 else 'ABORT rc=%d %s' % (q.returncode, q.stderr.strip()[-200:]))
    return out


def call1(req, profile='dev'):
    return call([req], profile)[0]


def both(req):
    """reply in dev and release"""
    return call1(req, 'dev'), call1(req, 'release')

"""Independent oracles written from the Falcon specification (not imported from the crate)."""
Q = 12289
SIG_BOUND = {512: 34034726, 1024: 70265242}          # floor(beta^2), spec Table 3.3
SIG_BYTELEN = {512: 666, 1024: 1280}
PK_BYTELEN = {512: 897, 1024: 1793}
SK_BYTELEN = {512: 1281, 1024: 2305}
SALT_LEN = 40
SIG_HEADER_BASE = 0x50    # this library labels its (padded, compressed) signatures 0 10 1 nnnn; C16 notes the re-labelling w.r.t. the reference (0x30 + logn)
# Falcon specification, Table 3.3 (sigma, sigma_min) and section 3.11 (byte lengths)
SIGMA = {512: 165.7366171829776, 1024: 168.38857144654395}
SIGMA_MIN = {512: 1.2778336969128337, 1024: 1.298280334344292}
COEFF_LIMIT = 12160                                     # property C07: entries below 12160 in magnitude (95 * 128)


def compress_bits(v):
    """Algorithm 17 without padding: list of 0/1"""
    bits = []
    for s in v:
        bits.append(1 if s < 0 else 0)
        a = abs(s)
        bits += [(a >> k) & 1 for k in range(6, -1, -1)]
        bits += [0] * (a >> 7) + [1]
    return bits


def compress(v, nbytes):
    """Algorithm 17: bytes or None"""
    if len(v) == 0:
        return None
    bits = compress_bits(v)
    if len(bits) > 8 * nbytes:
        return None
    bits += [0] * (8 * nbytes - len(bits))
    return bytes(int(''.join(map(str, bits[i:i + 8])), 2) for i in range(0, len(bits), 8))


def decompress(x, n, limit=COEFF_LIMIT):
    """Algorithm 18 (+ the range rule |s_i| < limit): list or None"""
    bits = []
    for b in x:
        bits += [(b >> k) & 1 for k in range(7, -1, -1)]
    j = 0; out = []
    for _ in range(n):
        if j + 8 > len(bits):
            return None
        sign = bits[j]
        low = 0
        for k in range(7):
            low = (low << 1) | bits[j + 1 + k]
        j += 8
        k = 0
        while True:
            if j >= len(bits):
                return None
            if bits[j] == 1:
                j += 1; break
            j += 1; k += 1
        s = low + 128 * k
        if s == 0 and sign == 1:
            return None
        if s >= limit:
            return None
        out.append(-s if sign else s)
    if any(bits[j:]):
        return None
    return out


def hash_to_point_from_stream(stream, n):
    """Algorithm 3 over an explicit XOF output stream (bytes); returns (coeffs, bytes consumed) or None if the stream is too short"""
    k = (1 << 16) // Q
    out = []; i = 0
    while len(out) < n:
        if i + 2 > len(stream):
            return None
        t = (stream[i] << 8) | stream[i + 1]; i += 2
        if t < k * Q:
            out.append(t % Q)
    return out, i


def centred(a):
    a %= Q
    return a - Q if a > Q // 2 else a


def negacyclic_mul(a, b):
    n = len(a); c = [0] * n
    for i in range(n):
        for j in range(n):
            k = i + j
            if k >= n: c[k - n] = (c[k - n] - a[i] * b[j]) % Q
            else: c[k] = (c[k] + a[i] * b[j]) % Q
    return c


# ---------------------------------------------------------------------------------------------- Z_q[X]/(X^n+1) helpers (independent of the crate)
_ROOTS = {}


def psi(n):
    """a primitive 2n-th root of unity mod q (n a power of two <= 1024)"""
    if n not in _ROOTS:
        for g in range(2, Q):
            r = pow(g, (Q - 1) // (2 * n), Q)
            if pow(r, n, Q) == Q - 1:
                _ROOTS[n] = r; break
    return _ROOTS[n]


def evaluate(p, n):
    """values of p at psi^(2i+1), i < n (the roots of X^n + 1); O(n^2)"""
    w = psi(n)
    pows = [1] * (2 * n)
    for i in range(1, 2 * n): pows[i] = pows[i - 1] * w % Q
    return [sum(p[j] * pows[((2 * i + 1) * j) % (2 * n)] for j in range(n)) % Q for i in range(n)]


def interpolate(vals, n):
    w = psi(n); winv = pow(w, Q - 2, Q); ninv = pow(n, Q - 2, Q)
    pows = [1] * (2 * n)
    for i in range(1, 2 * n): pows[i] = pows[i - 1] * winv % Q
    return [ninv * sum(vals[i] * pows[((2 * i + 1) * j) % (2 * n)] for i in range(n)) % Q for j in range(n)]


def poly_div(a, b, n):
    """a / b in Z_q[X]/(X^n+1), or None if b is not invertible"""
    ea, eb = evaluate(a, n), evaluate(b, n)
    if any(x == 0 for x in eb):
        return None
    return interpolate([x * pow(y, Q - 2, Q) % Q for x, y in zip(ea, eb)], n)


def shake_stream(data, nbytes):
    import hashlib
    return hashlib.shake_256(data).digest(nbytes)


def hash_to_point(data, n):
    k = 2 * n + 256
    while True:
        r = hash_to_point_from_stream(shake_stream(data, k), n)
        if r is not None:
            return r[0]
        k *= 2


def pk_bytes(h, n):
    logn = n.bit_length() - 1
    bits = ''.join(format(x, '014b') for x in h)
    return bytes([logn]) + int(bits, 2).to_bytes(len(bits) // 8, 'big')


def sig_bytes(salt, s2, n):
    logn = n.bit_length() - 1
    body = compress(s2, SIG_BYTELEN[n] - 41)
    if body is None:
        return None
    return bytes([SIG_HEADER_BASE + logn]) + bytes(salt) + body


def spec_verify(msg, sig, pk, n):
    """Algorithm 16 on byte strings (after the header / length checks of the codecs); returns bool or a string for undecodable input"""
    if len(sig) != SIG_BYTELEN[n] or len(pk) != PK_BYTELEN[n]:
        return 'bad-length'
    logn = n.bit_length() - 1
    if sig[0] != SIG_HEADER_BASE + logn or pk[0] != logn:
        return 'bad-header'
    salt, body = sig[1:41], sig[41:]
    bits = bin(int.from_bytes(pk[1:], 'big'))[2:].zfill(14 * n)
    h = [int(bits[14 * i:14 * i + 14], 2) for i in range(n)]
    if any(x >= Q for x in h):
        return 'bad-pk-field'
    s2 = decompress(body, n)
    if s2 is None:
        return False
    c = hash_to_point(bytes(salt) + bytes(msg), n)
    eh = evaluate(h, n); es = evaluate([x % Q for x in s2], n)
    prod = interpolate([a * b % Q for a, b in zip(eh, es)], n)
    s1 = [centred(ci - pi) for ci, pi in zip(c, prod)]
    norm = sum(x * x for x in s1) + sum(x * x for x in s2)
    return norm <= SIG_BOUND[n]


def make_triple(n, s2_small, s1_small, msg=b'verif', salt=bytes(40)):
    """(msg, sig bytes, pk bytes) for degree n such that verify recomputes s1 = s1_small (zero padded) with s2 = s2_small
    (zero padded, entries moved to other positions until invertible): h = (c - s1) / s2"""
    c = hash_to_point(bytes(salt) + bytes(msg), n)
    k = len(s2_small)
    for stride in list(range(1, 64)):
        s2 = [0] * n
        for i, v in enumerate(s2_small):
            s2[(i * stride) % n] += v
        s1 = list(s1_small) + [0] * (n - len(s1_small))
        h = poly_div([(ci - x) % Q for ci, x in zip(c, s1)], [x % Q for x in s2], n)
        if h is not None:
            sig = sig_bytes(salt, s2, n)
            if sig is None:
                return None
            return bytes(msg), sig, pk_bytes(h, n), s2, s1
    return None

"""Independent oracles written from the Falcon specification (not imported from the crate)."""
Q = 12289
SIG_BOUND = {512: 34034726, 1024: 70265242}          # floor(beta^2), spec Table 3.3
SIG_BYTELEN = {512: 666, 1024: 1280}
PK_BYTELEN = {512: 897, 1024: 1793}
SK_BYTELEN = {512: 1281, 1024: 2305}
SALT_LEN = 40
COEFF_LIMIT = 12160                                     # property C07: entries below 12160 in magnitude (95 * 128)


def compress_bits(v):
    """Algorithm 17 without padding: list of 0/1"""
    bits = []
    for s in v:
        bits.append(1 if s < 0 else 0)
        a = abs(s)
        bits += [(a >> k) & 1 for k in range(6, -1, -1)]
        bits += [0] * (a >> 7) + [1]
    return bits


def compress(v, nbytes):
    """Algorithm 17: bytes or None"""
    if len(v) == 0:
        return None
    bits = compress_bits(v)
    if len(bits) > 8 * nbytes:
        return None
    bits += [0] * (8 * nbytes - len(bits))
    return bytes(int(''.join(map(str, bits[i:i + 8])), 2) for i in range(0, len(bits), 8))


def decompress(x, n, limit=COEFF_LIMIT):
    """Algorithm 18 (+ the range rule |s_i| < limit): list or None"""
    bits = []
    for b in x:
        bits += [(b >> k) & 1 for k in range(7, -1, -1)]
    j = 0; out = []
    for _ in range(n):
        if j + 8 > len(bits):
            return None
        sign = bits[j]
        low = 0
        for k in range(7):
            low = (low << 1) | bits[j + 1 + k]
        j += 8
        k = 0
        while True:
            if j >= len(bits):
                return None
            if bits[j] == 1:
                j += 1; break
            j += 1; k += 1
        s = low + 128 * k
        if s == 0 and sign == 1:
            return None
        if s >= limit:
            return None
        out.append(-s if sign else s)
    if any(bits[j:]):
        return None
    return out


def hash_to_point_from_stream(stream, n):
    """Algorithm 3 over an explicit XOF output stream (bytes); returns (coeffs, bytes consumed) or None if the stream is too short"""
    k = (1 << 16) // Q
    out = []; i = 0
    while len(out) < n:
        if i + 2 > len(stream):
            return None
        t = (stream[i] << 8) | stream[i + 1]; i += 2
        if t < k * Q:
            out.append(t % Q)
    return out, i


def centred(a):
    a %= Q
    return a - Q if a > Q // 2 else a


def negacyclic_mul(a, b):
    n = len(a); c = [0] * n
    for i in range(n):
        for j in range(n):
            k = i + j
            if k >= n: c[k - n] = (c[k - n] - a[i] * b[j]) % Q
            else: c[k] = (c[k] + a[i] * b[j]) % Q
    return c

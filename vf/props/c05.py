"""C05 — keys and signatures survive serialisation (claimed at the codec layer): for EVERY representable object
|to_bytes(x)| is the variant's constant and from_bytes(to_bytes(x)) = Ok(x). Engine M on the real to_bytes / from_bytes."""
from ..common import *
from .. import replay, spec
from ..mirsym import load_program
from ..mirsym.runner import run_jobs
from . import c06

MOD = 'vf.props.c06_scen'


def jobs_for(tier):
    jobs = []
    for N in (512, 1024):
        jobs.append((MOD, 'roundtrip_scen', dict(what='Signature', N=N, deadline_s=3000)))
        if tier == 'quick':
            # all coefficients are handled by the same loop body; quick keeps three windows symbolic (first, middle, last 48)
            for lo, hi in ((0, 48), (N // 2 - 24, N // 2 + 24), (N - 48, N)):
                jobs.append((MOD, 'roundtrip_scen', dict(what='PublicKey', N=N, window=(lo, hi), deadline_s=3000)))
                jobs.append((MOD, 'roundtrip_scen', dict(what='SecretKey', N=N, window=(lo, hi), deadline_s=3000)))
        else:
            step = 64
            for lo in range(0, N, step):
                jobs.append((MOD, 'roundtrip_scen', dict(what='PublicKey', N=N, window=(lo, lo + step), deadline_s=3000)))
                jobs.append((MOD, 'roundtrip_scen', dict(what='SecretKey', N=N, window=(lo, lo + step), deadline_s=3000)))
    return jobs


def encode_from_model(what, N, m):
    """the specification-layout encoding of the object described by a solver model"""
    if what == 'PublicKey':
        h = [m.get('h%d' % i, 0) for i in range(N)]
        enc = spec.pk_bytes(h, N)
    elif what == 'Signature':
        L = spec.SIG_BYTELEN[N]
        enc = bytes([spec.SIG_HEADER_BASE + N.bit_length() - 1]) + bytes(m.get('r%d' % i, 0) for i in range(40)) + bytes(m.get('s%d' % i, 0) for i in range(L - 41))
    else:
        w = 6 if N == 512 else 5
        bits = ''
        for nm, ww in (('f', w), ('g', w), ('F', 8)):
            for i in range(N):
                bits += format(m.get('%s%d' % (nm, i), 0) & ((1 << ww) - 1), '0%db' % ww)
        enc = bytes([0x50 + N.bit_length() - 1]) + int(bits, 2).to_bytes(len(bits) // 8, 'big')
    return enc


def confirm(rep, r, b):
    """rebuild the object natively from the model: encode by the specification's layout, decode + re-encode natively"""
    what, N = r['what'], r['N']
    enc = encode_from_model(what, N, b.get('model') or {})
    encs = [enc]
    if what == 'SecretKey':
        # the recomputed G depends on (f, g, F) through g*F/f; a handful of representable keys with a large / awkward quotient
        w = 6 if N == 512 else 5
        lim = (1 << (w - 1)) - 1
        for f0, g0, F0 in (([1], [2], [100]), ([1], [lim, -lim], [127, -127, 127]), ([-1, 1], [lim] * 8, [-127] * 8), ([3], [-2, 5], [90, -111])):
            bits = ''
            for vec, ww in ((f0, w), (g0, w), (F0, 8)):
                v = list(vec) + [0] * (N - len(vec))
                bits += ''.join(format(x & ((1 << ww) - 1), '0%db' % ww) for x in v)
            encs.append(bytes([0x50 + N.bit_length() - 1]) + int(bits, 2).to_bytes(len(bits) // 8, 'big'))
    for enc in encs:
        if try_one(rep, r, b, what, N, enc):
            return True
    rep.note_inconclusive('round-trip finding did not reproduce natively: %s %s' % (r['tag'], b['kind']))
    return False


def try_one(rep, r, b, what, N, enc):
    req = ['parse', what, N, enc.hex()]
    dev, rel = replay.both(req)
    rep.replayed += 1
    want = 'Ok ' + enc.hex()
    if dev != want or rel != want:
        rep.violation('%s:roundtrip' % what, '%s::<%d>: the specification-layout encoding of a representable object does not survive from_bytes/to_bytes natively: %s (%s)'
                      % (what, N, dev[:60], b['kind']), {'replay_request': ['parse', what, N, enc.hex()[:120] + '...'], 'dev': dev[:100], 'release': rel[:100], 'kind': b['kind']})
        return True
    return False


def check(tier):
    rep = Report('C05', tier)
    rep.functions = ['falcon::{PublicKey,SecretKey,Signature}::<N>::{to_bytes,from_bytes}, N in {512,1024}', 'SecretKey::{serialize,deserialize}_field_element']
    rep.bounds = ['representable set: public key with all h_i in [0,q); signature with any 40-byte salt and any compressed part of the variant\'s length; secret key with |f_i|,|g_i| <= 2^(w-1)-1 (w = 6/5) and |F_i| <= 127',
                  'quick: signatures fully symbolic; keys with three windows of 48 coefficients symbolic (first / middle / last), the rest zero. thorough: every window of 64 coefficients',
                  'sizes: 897/1793 (pk), 1281/2305 (sk), 666/1280 (sig) checked on every path']
    rep.outside = ['"every generated key lies in the representable set" and "the decoded key signs verifiable signatures" need key generation / signing from a seed (floating point, CSPRNG): outside this family',
                   'equality of G and of the LDL tree after decoding (recomputed by floating-point code)', 'all coefficients symbolic simultaneously (windows are independent: the codec is coefficient-wise)']
    rep.trusted = ['mirsym summaries', 'z3', 'deserialize_field_element summary = its contract (checked against the real MIR in C06)']
    rep.assumptions = ['claimed at the codec layer only (DESIGN §4 C05)']
    load_program(fresh=True)
    jobs = jobs_for(tier)
    results = run_jobs(jobs, workers=NCPU, order_seed=seed())
    for job, r in zip(jobs, results):
        if r.get('error'):
            rep.oblige(1, ok=False); rep.note_inconclusive('%s: %s' % (job[2], r['error'])); continue
        rep.extra.setdefault('mir_hashes', {}).update(r.get('mir_hash', {}))
        rep.states += r['paths']; rep.transitions += r['steps']; rep.queries += r['queries']; rep.solver_s += r['solver_s']
        rep.oblige(r['obligations'] - r['violable']); rep.oblige(r['violable'], ok=False)
        rep.parts.setdefault('scenarios', []).append({k: r.get(k) for k in ('tag', 'paths', 'ok', 'err', 'obligations')} | {'wall_s': round(r['wall_s'], 1)})
        if r['ok'] == 0 and not r['bad'] and not r['panics']:
            rep.note_inconclusive('vacuity: %s never reaches a decoded object' % r['tag'])
        for s in r['samples'][:1]:
            rep.sample({'scenario': r['tag'], 'sample': {k: v for k, v in s.items() if k != 'model'}})
            # translator validation: the sample object, encoded by the specification's layout, must round-trip through the real code
            enc = encode_from_model(r['what'], r['N'], s.get('model') or {})
            got = replay.call1(['parse', r['what'], r['N'], enc.hex()])
            if got == 'Ok ' + enc.hex():
                rep.replayed += 1
            else:
                rep.note_inconclusive('translator validation failed (%s): the real code answers %s' % (r['tag'], got[:60]))
        for b in r['bad'] + [{'kind': 'panic: ' + p['msg'], 'model': p['model']} for p in r['panics']]:
            if b.get('deferred'):
                rep.note_inconclusive('%s: %s' % (r['tag'], b['kind'])); continue
            confirm(rep, r, b)
    return rep.finish()

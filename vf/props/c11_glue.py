"""C11-3 / C13 glue (engine M): the FastFft impls hand the right table and the right n^-1 to the generic butterflies."""
import time
import z3
from ..common import *
from ..mirsym import *
from .. import spec
from .c07_scen import prog

Q = spec.Q


CUSTOM_FELT = set()
OVERRIDE_PANIC = set()      # FastFft methods whose type-specific butterfly already has a violable obligation at a smaller length


def felt_glue_scen(n, tag=''):
    P = prog()
    ex = new_exec(P)
    log = []

    def rec(name):
        def f(ex, st, fr, args, info):
            tabs = []
            for a in args[1:]:
                if isinstance(a, Ref):
                    v = ex.load(st, a.loc)
                    if isinstance(v, Seq):
                        e = v.e if a.rng is None else v.e[a.rng[0]:a.rng[0] + a.rng[1]]
                        tabs.append(('table', [x.f[0].t for x in e]))
                        continue
                if isinstance(a, Agg) and a.name == 'Felt':
                    tabs.append(('felt', a.f[0].t))
            first = ex.slice_elems(st, args[0]) if isinstance(args[0], Ref) else None
            log.append((name, len(first) if first is not None else None, tabs))
            if name in ('split_fft',):
                return Tup(Seq('vec', ()), Seq('vec', ()))
            if name == 'merge_fft':
                return Seq('vec', ())
            return UNIT
        return f
    overridden = [m for m in ('fft', 'ifft', 'split_fft', 'merge_fft') if '<Felt as CyclotomicFourier>::' + m in P.by_key]
    # whenever field arithmetic is actually executed here (a type-specific butterfly, or a FastFft method that does its own strided
    # layers instead of calling the generic code) the obligations stay local: residues `x % q` are cut points, and most overflow
    # obligations are discharged by interval arithmetic before any solver query. On the unchanged tree no arithmetic runs here at all.
    ex.abstract_rem = True
    ex.use_intervals = True
    ex.deadline = time.time() + 1500
    for mname in ('fft', 'ifft', 'split_fft', 'merge_fft'):
        if mname not in overridden:
            ex.over['CyclotomicFourier::' + mname] = rec(mname)
    xs = [Agg('Felt', None, (ex.new_input('a%d' % i, 'u32'),)) for i in range(n)]
    for i, x in enumerate(xs):
        ex.assume(z3.ULT(x.f[0].t, Q)); ex.bounds['a%d' % i] = (0, Q - 1)
    poly = Agg('Polynomial', None, (Seq('vec', xs),))
    res = {'n': n, 'calls': [], 'panics': []}
    for meth in ('fft_inplace', 'ifft_inplace', 'split_fft', 'merge_fft'):
        fn = P.by_key['<Polynomial<Felt> as FastFft>::' + meth]
        del log[:]
        ex.panics = []
        if meth in OVERRIDE_PANIC and n > 64:
            # the override's obligations are already known to be violable at a smaller length (reported there, replayed natively):
            # executing ten symbolic layers at n = 1024 adds nothing to that finding and takes minutes
            res['calls'].append((meth, [])); res['panics'].append((meth, [])); continue
        if meth in CUSTOM_FELT and n > 64:
            # already seen (at a smaller length) to do its own arithmetic instead of calling the generic butterflies: executing ten
            # symbolic layers at n = 1024 adds nothing to that finding
            res['calls'].append((meth, [])); res['panics'].append((meth, [])); continue
        ex.on_return = lambda e, s, rv: None
        cell = Loc(('T', poly))
        st = State()
        fr = Frame(fn, 0, {}); st.nfid = 1
        holder = st.alloc(poly)
        args = [Ref(holder)] if meth != 'merge_fft' else [Ref(holder), Ref(holder)]
        for p, a in zip(fn.params, args): fr.locals[p] = a
        st.stack.append(fr)
        ex.explore(st)
        res['calls'].append((meth, [(nm, ln, [(k, (v if k == 'felt' else v)) for k, v in tabs]) for nm, ln, tabs in log]))
        res['panics'].append((meth, [p['msg'] for p in ex.panics]))
        gen = {'fft_inplace': 'fft', 'ifft_inplace': 'ifft'}.get(meth, meth)
        if not log and gen not in overridden and not ex.panics and n >= 2:
            CUSTOM_FELT.add(meth)
        res.setdefault('panic_models', []).extend((meth, p['msg'], p['site'], [(p['inputs'] or {}).get('a%d' % i, 0) for i in range(n)]) for p in ex.panics[:2] if p['kind'] == 'assert' or True)
    res['overridden'] = overridden
    res['paths'] = ex.paths; res['queries'] = ex.nq; res['solver_s'] = ex.solver_s; res['steps'] = ex.steps
    res['mir_hash'] = {m: P.by_key['<Polynomial<Felt> as FastFft>::' + m].hash for m in ('fft_inplace', 'ifft_inplace', 'split_fft', 'merge_fft')}
    return res


def run(rep, tier, field):
    load_program(fresh=True)
    bad = []
    checks = 0
    psi = None
    override_findings = []
    for n in [1 << k for k in range(11)] + [3, 6, 1000]:
        try:
            r = felt_glue_scen(n)
        except (Unsupported, AttributeError, TypeError, KeyError, IndexError, ValueError) as e:
            rep.oblige(1, ok=False)
            rep.note_inconclusive('FastFft glue / butterfly execution at n=%d: %s' % (n, str(e)[:200]))
            continue
        rep.states += r['paths']; rep.transitions += r['steps']; rep.queries += r['queries']
        rep.extra.setdefault('mir_hashes', {}).update(r['mir_hash'])
        calls = dict(r['calls']); panics = dict(r['panics'])
        pow2 = n & (n - 1) == 0 and n <= 1024
        # forward transform: table must be the bit-reversed powers of a primitive 2048-th root
        for meth, want_generic, tabidx in (('fft_inplace', 'fft', 'fwd'), ('ifft_inplace', 'ifft', 'inv'), ('split_fft', 'split_fft', 'inv'), ('merge_fft', 'merge_fft', 'fwd')):
            c = calls[meth]
            checks += 1
            if want_generic in r.get('overridden', []):
                # Felt has its own implementation of this butterfly: the generic code (engine S) does not speak for it. Its real MIR was
                # executed on symbolic canonical inputs: every arithmetic / index obligation must hold
                for (m2, msg, site, vec) in r.get('panic_models', []):
                    if m2 == meth and pow2:
                        override_findings.append((n, meth, want_generic, msg, site, vec))
                        OVERRIDE_PANIC.add(meth)
                continue
            if meth == 'ifft_inplace' and not pow2:
                if not panics[meth]:
                    bad.append('ifft_inplace on length %d does not panic (would silently mis-scale)' % n)
                continue
            if len(c) != 1 or c[0][0] != want_generic:
                bad.append('%s (n=%d) calls %s, expected exactly one call of the generic %s' % (meth, n, [x[0] for x in c], want_generic)); continue
            tabs = [v for k, v in c[0][2] if k == 'table' and len(v) >= max(n, 1)]
            tab = tabs[-1] if tabs else None
            if tab is None:
                bad.append('%s (n=%d): no table argument recorded' % (meth, n)); continue
            if psi is None and tabidx == 'fwd' and len(tab) >= 1024:
                psi = tab[512]
            fw = table_kind(tab)
            if fw != tabidx:
                bad.append('%s (n=%d) passes a table that is %s, expected the %s table' % (meth, n, fw, 'forward' if tabidx == 'fwd' else 'inverse'))
            if meth == 'ifft_inplace':
                fel = [v for k, v in c[0][2] if k == 'felt']
                if not fel or (n * fel[-1]) % Q != 1:
                    bad.append('ifft_inplace (n=%d) scales by %s, which is not n^-1 mod q' % (n, fel[-1] if fel else None))
    rep.oblige(checks - len(bad)); rep.oblige(len(bad), ok=False)
    rep.parts['glue_checks'] = checks
    if override_findings:
        from .. import replay
        rep.oblige(len(override_findings), ok=False)
        done = False
        cands = []
        for n, meth, gen, msg, site, vec in override_findings:
            cands.append((n, meth, gen, msg, site, vec))
            # the model lives behind cut points (abstracted residues), so also try structured extreme vectors of that length:
            # blocks of 2^k values q-1 followed by 2^k zeros, all q-1, alternating
            for k in range(0, max(1, n.bit_length())):
                blk = 1 << k
                cands.append((n, meth, gen, msg, site, [(Q - 1) if (i // blk) % 2 == 0 else 0 for i in range(n)]))
                cands.append((n, meth, gen, msg, site, [0 if (i // blk) % 2 == 0 else (Q - 1) for i in range(n)]))
            cands.append((n, meth, gen, msg, site, [Q - 1] * n))
        seen_n = set()
        for n, meth, gen, msg, site, vec in cands:
            arg = ','.join(map(str, vec))
            cmd = {'ifft': 'ntt_inv', 'fft': 'ntt_fwd'}.get(gen, 'ntt_split_merge')
            dev, rel = replay.both([cmd, arg]); rep.replayed += 1
            wrong = False
            if gen in ('ifft', 'fft') and not rel.startswith('PANIC'):
                # release builds do not panic on overflow: they return wrong values; the opposite transform must give the input back
                back = replay.call1(['ntt_fwd' if gen == 'ifft' else 'ntt_inv', rel], 'release')
                wrong = back != arg
            if dev.startswith('PANIC') or rel.startswith('PANIC') or wrong:
                rep.violation('ntt-override:panic', 'Felt\'s own %s (overriding the generic butterflies) violates an obligation at n=%d: %s at %s; natively %s(%s...) -> %s'
                              % (gen, n, msg, site, cmd, arg[:60], dev if dev.startswith('PANIC') else rel), {'replay_request': [cmd, arg], 'dev': dev[:120], 'release': rel[:120]})
                done = True; break
        if not done:
            rep.note_inconclusive('obligations of a type-specific %s are violable (%s) but did not reproduce natively' % (override_findings[0][2], override_findings[0][3]))
    rep.sample({'engine': 'M', 'glue': 'Polynomial<Felt>::ifft_inplace for n=512 passes the inverse table and FELT_NINV_512', 'ok': not bad})
    for b in bad[:3]:
        # natively: a wrong table / constant shows as a failed round trip or product at that length
        from .. import replay
        import re
        m = re.search(r'n=(\d+)', b) or re.search(r'length (\d+)', b)
        n = int(m.group(1)) if m else 8
        if n & (n - 1) == 0 and n <= 1024:
            a = ','.join(str((7 * i + 3) % Q) for i in range(n))
            got = replay.both(['ntt_roundtrip', a]); rep.replayed += 1
            mono = ','.join('1' if i == (1 % n) else '0' for i in range(n))
            gotm = replay.both(['ntt_mul', a, mono]); wantm = ','.join(map(str, spec.negacyclic_mul([(7 * i + 3) % Q for i in range(n)], [1 if i == (1 % n) else 0 for i in range(n)])))
            wants = replay.call1(['ntt_fwd', a])
            sm = replay.both(['ntt_split_merge', wants]) if n >= 2 else (wants, wants)
            if got[0] != a or got[1] != a or gotm[0] != wantm or sm[0] != wants:
                rep.violation('ntt-glue', b + ' - natively: round trip / product / split-merge at n=%d is wrong' % n, {'replay_request': ['ntt_roundtrip', a[:60]], 'dev': got[0][:80], 'expected': a[:80]})
                continue
        rep.note_inconclusive('glue finding not reproduced natively: ' + b)


def table_kind(tab):
    """'fwd' if tab[i] = psi^bitrev(i) for a primitive 2048-th root psi = tab[512]; 'inv' if it is the table of psi^-1; else a description"""
    if len(tab) < 1024:
        return 'too short (%d)' % len(tab)
    psi = tab[512]
    if pow(psi, 1024, Q) != Q - 1:
        return 'not generated by a primitive 2048-th root'
    for i in range(1024):
        if tab[i] != pow(psi, int(format(i, '010b')[::-1], 2), Q):
            return 'corrupt at index %d' % i
    # orientation: the forward table is the one whose generator is the crate's psi; tell them apart by convention psi_fwd = 1479^... :
    # both tables are valid power tables; the inverse one is generated by psi^-1. Distinguish by comparing with the spec's choice:
    # FWD[1] = psi^512 = sqrt(-1) = 1479 in the reference tables; INV[1] = -1479 = 10810.
    return 'fwd' if tab[1] == 1479 else ('inv' if tab[1] == Q - 1479 else 'generated by another root (tab[1]=%d)' % tab[1])


# ---------------------------------------------------------------------------------------------- complex glue (C13)
def complex_glue_scen(n):
    """<Polynomial<Complex64> as FastFft>::{fft_inplace, ifft_inplace, split_fft, merge_fft} on a length-n vector with the
    generic butterflies replaced by recorders: which table (as floats) and which scaling factor do they receive?"""
    import cmath, math
    P = prog()
    ex = new_exec(P)
    log = []

    def cplx(v):
        return (v.f[0].t, v.f[1].t)

    def ov_cnew(ex, st, fr, args, info):
        return Agg('Complex', None, (args[0], args[1]))
    ex.over['Complex::new'] = ov_cnew
    ex.over['num_complex::Complex::new'] = ov_cnew

    def ov_conj(ex, st, fr, args, info):
        z = args[0] if isinstance(args[0], Agg) else ex.deref(st, args[0])
        return Agg('Complex', None, (z.f[0], V(-z.f[1].t, 'f64')))
    ex.over['Complex::conj'] = ov_conj
    ex.over['num_complex::Complex::conj'] = ov_conj

    def rec(name):
        def f(ex, st, fr, args, info):
            tabs = []
            for a in args[1:]:
                if isinstance(a, Ref):
                    v = ex.load(st, a.loc)
                    if isinstance(v, Seq):
                        e = v.e if a.rng is None else v.e[a.rng[0]:a.rng[0] + a.rng[1]]
                        tabs.append(('table', [cplx(x) for x in e])); continue
                if isinstance(a, Agg) and a.name == 'Complex':
                    tabs.append(('scalar', cplx(a)))
            log.append((name, tabs))
            if name == 'split_fft': return Tup(Seq('vec', ()), Seq('vec', ()))
            if name == 'merge_fft': return Seq('vec', ())
            return UNIT
        return f
    for mname in ('fft', 'ifft', 'split_fft', 'merge_fft'):
        ex.over['CyclotomicFourier::' + mname] = rec(mname)
    xs = [Agg('Complex', None, (V(float(i + 1), 'f64'), V(0.0, 'f64'))) for i in range(n)]
    poly = Agg('Polynomial', None, (Seq('vec', xs),))
    res = {'n': n, 'calls': {}, 'panics': {}}
    for meth in ('fft_inplace', 'ifft_inplace', 'split_fft', 'merge_fft'):
        fn = P.by_key['<Polynomial<Complex64> as FastFft>::' + meth]
        del log[:]
        ex.panics = []
        ex.on_return = lambda e, s, rv: None
        st = State()
        fr = Frame(fn, 0, {}); st.nfid = 1
        holder = st.alloc(poly)
        args = [Ref(holder)] if meth != 'merge_fft' else [Ref(holder), Ref(holder)]
        for p, a in zip(fn.params, args): fr.locals[p] = a
        st.stack.append(fr)
        try:
            ex.explore(st)
        except (Unsupported, AttributeError, TypeError, KeyError, IndexError, ValueError) as e:
            # the method does its own floating-point work instead of handing table + data to the generic butterflies: it cannot be
            # compared structurally; it is checked natively (complex_ops) by the driver
            res.setdefault('custom', {})[meth] = str(e)[:160]
        res['calls'][meth] = list(log)
        res['panics'][meth] = [p['msg'] for p in ex.panics]
    res['paths'] = ex.paths; res['steps'] = ex.steps; res['queries'] = ex.nq
    res['mir_hash'] = {m: P.by_key['<Polynomial<Complex64> as FastFft>::' + m].hash for m in ('fft_inplace', 'ifft_inplace', 'split_fft', 'merge_fft')}
    return res


def expected_complex_table():
    import cmath, math
    out = []
    for i in range(1024):
        br = int(format(i, '010b')[::-1], 2)
        out.append(cmath.exp(1j * math.pi * br / 1024))
    return out


def run_complex(rep, tier):
    import math
    load_program(fresh=True)
    T = expected_complex_table()
    bad = []; checks = 0
    sizes = [1 << k for k in range(1, 11)]
    tol = 1e-15
    for n in sizes:
        r = complex_glue_scen(n)
        rep.states += r['paths']; rep.transitions += r['steps']; rep.queries += max(r['queries'], 1)
        rep.extra.setdefault('mir_hashes', {}).update(r['mir_hash'])
        for meth, generic, conj, need in (('fft_inplace', 'fft', False, n), ('ifft_inplace', 'ifft', True, n), ('split_fft', 'split_fft', True, n), ('merge_fft', 'merge_fft', False, 2 * n)):
            checks += 1
            c = r['calls'][meth]
            if meth in r.get('custom', {}):
                bad.append((n, '%s does not hand its work to the generic %s (own implementation: %s)' % (meth, generic, r['custom'][meth]))); continue
            if len(c) != 1 or c[0][0] != generic:
                bad.append((n, '%s calls %s instead of exactly one generic %s' % (meth, [x[0] for x in c], generic))); continue
            tabs = [v for k, v in c[0][1] if k == 'table' and not (len(v) == n and abs(v[0][0] - 1.0) < 1e-9 and abs(v[min(1, n - 1)][0] - 2.0) < 1e-9)]
            if not tabs:
                bad.append((n, '%s: no twiddle table argument' % meth)); continue
            tab = tabs[-1]
            need = min(need, 1024)
            if len(tab) < need:
                bad.append((n, '%s passes a table of %d entries, the butterflies index up to %d' % (meth, len(tab), need))); continue
            for i in range(need):
                e = T[i].conjugate() if conj else T[i]
                if abs(tab[i][0] - e.real) > tol or abs(tab[i][1] - e.imag) > tol:
                    bad.append((n, '%s: table entry %d is (%r, %r), expected %s%r' % (meth, i, tab[i][0], tab[i][1], 'conj ' if conj else '', e))); break
            if meth == 'ifft_inplace':
                sc = [v for k, v in c[0][1] if k == 'scalar']
                if not sc or abs(sc[-1][0] - 1.0 / n) > 1e-18 or sc[-1][1] != 0.0:
                    bad.append((n, 'ifft_inplace scales by %s, expected 1/%d' % (sc[-1] if sc else None, n)))
    rep.oblige(checks - len(bad)); rep.oblige(len(bad), ok=False)
    rep.sample({'engine': 'M', 'glue': 'Polynomial<Complex64>::{fft,ifft,split,merge} for n = 2..1024: tables / conjugates / 1/n handed to the generic butterflies', 'findings': len(bad)})
    return bad

"""C02 — verify accepts exactly what the specification accepts. Engine M on the real MIR of verify::<N> (toy N with the
real Falcon-512/1024 parameter sets), composed with C07 (decompress), C14 (HashToPoint), C11 (NTT), C12 (field)."""
import math
from ..common import *
from .. import replay, spec
from ..mirsym import load_program
from ..mirsym.runner import run_jobs

MOD = 'vf.props.c02_scen'


def jobs_for(tier):
    jobs = []
    for variant in (512, 1024):
        for n in (1, 2, 4):
            jobs.append((MOD, 'verify_scen', dict(n=n, variant=variant, mode='arbitrary', deadline_s=3000)))
    real = [(1, 3), (1, 4)] if tier == 'quick' else [(1, 3), (1, 4), (1, 6), (2, 3), (2, 4)]
    for n, L in real:
        for variant in ((512,) if tier == 'quick' else (512, 1024)):
            jobs.append((MOD, 'verify_scen', dict(n=n, variant=variant, mode='real', L=L, deadline_s=6000)))
    return jobs


def squares_for(T, cap):
    """list of integers 0 < v <= cap with sum of squares == T (greedy, Lagrange guarantees termination quickly)"""
    out = []
    rest = T
    while rest > 0:
        v = min(cap, math.isqrt(rest))
        out.append(v); rest -= v * v
        if len(out) > 200:
            return None
    return out


def battery(variant, extra_norms=(), extra_vectors=()):
    """(label, s2_small, s1_small, sig_override) candidates for native differential replay"""
    b = spec.SIG_BOUND[variant]
    out = []
    for T in list(extra_norms) + [b - 1, b, b + 1]:
        sq = squares_for(T - 1, 6144)
        if sq: out.append(('norm %d (bound%+d)' % (T, T - b), [1], [(-v if i % 2 else v) for i, v in enumerate(sq)], None))
    for s2, s1 in extra_vectors:
        s2v = [x for x in s2 if x] or [1]
        out.append(('vectors from the solver model', s2v, list(s1), None))
        # the same coefficients, padded with further s1 coefficients so that the true norm sits just inside / just outside the bound:
        # a wrong per-coefficient contribution then flips the decision
        base = sum(x * x for x in s1) + sum(x * x for x in s2v)
        for target, lab in ((b - 100, 'padded to bound-100'), (b + 100, 'padded to bound+100')):
            if base < target:
                sq = squares_for(target - base, 6144)
                if sq:
                    out.append(('vectors from the solver model, ' + lab, s2v, list(s1) + [(-v if i % 2 else v) for i, v in enumerate(sq)], None))
    out.append(('small negative s1 (centred representative matters)', [1], [-1, -2, -100, 3, -6000], None))
    sq = squares_for(b - 1000, 6144)
    out.append(('s2 carries the excess over the bound', [100], sq, None))
    out.append(('large s2 only', [-3000, 2000, 1], [0], None))
    out.append(('undecodable compressed part', [1], [1], 'garbage'))
    out.append(('norm far above the bound (every s1 coefficient = 6000)', [1], [6000 if i % 2 else -6000 for i in range(variant)], None))
    return out


def differential(rep, variant, cands, key, what, stop_after_first=True, need_panic=False):
    found = False
    for label, s2, s1, override in cands:
        t = spec.make_triple(variant, s2, s1)
        if t is None:
            continue
        msg, sig, pk, s2f, s1f = t
        if override == 'garbage':
            sig = sig[:41] + bytes([0xff] * 8) + bytes(len(sig) - 49)
        want = spec.spec_verify(msg, sig, pk, variant)
        req = ['verify', variant, msg.hex(), sig.hex(), pk.hex()]
        dev, rel = replay.both(req)
        rep.replayed += 1
        exp = 'true' if want is True else 'false'
        if (dev != exp or rel != exp) and (not need_panic or dev.startswith('PANIC') or rel.startswith('PANIC')):
            norm = sum(x * x for x in s1f) + sum(x * x for x in s2f)
            rep.violation(key, '%s: Falcon-%d triple [%s], squared norm %d (bound %d): verify returns dev=%s release=%s, Algorithm 16 says %s'
                          % (what, variant, label, norm, spec.SIG_BOUND[variant], dev, rel, exp),
                          {'replay_request': ['verify', variant, msg.hex(), sig.hex(), pk.hex()],
                           'construction': {'s2_small': s2, 's1_small': s1, 'msg': msg.hex(), 'salt': '00' * 40, 'label': label}, 'dev': dev, 'release': rel, 'expected': exp})
            found = True
            if stop_after_first:
                return True
    return found


def params_check(rep, fields=('n', 'sigma', 'sigmin', 'sig_bound', 'sig_bytelen')):
    """the parameter table of both variants (real MIR of FalconVariant::parameters) against the specification's constants"""
    from . import c02_scen
    r = c02_scen.params_scen()
    rep.extra.setdefault('mir_hashes', {}).update(r['mir_hash'])
    want = {v: {'n': v, 'sigma': spec.SIGMA[v], 'sigmin': spec.SIGMA_MIN[v], 'sig_bound': spec.SIG_BOUND[v], 'sig_bytelen': spec.SIG_BYTELEN[v]} for v in (512, 1024)}
    for v in (512, 1024):
        for f in fields:
            got, w = r['params'][v][f], want[v][f]
            ok = abs(got - w) <= 1e-12 * abs(w) if isinstance(w, float) else got == w
            rep.oblige(1, ok=ok)
            if not ok:
                nat = replay.call1(['params', v]); rep.replayed += 1
                rep.violation('parameters:%s' % f, 'FalconVariant::Falcon%d.parameters().%s = %r, the specification says %r (natively: %s)' % (v, f, got, w, nat),
                              {'replay_request': ['params', v], 'native': nat, 'expected': w})
    rep.sample({'engine': 'M', 'function': 'FalconVariant::parameters', 'values': r['params']})


def check(tier):
    rep = Report('C02', tier)
    rep.functions = ['(composed lemmas, re-run here) encoding::{compress,decompress}, polynomial::hash_to_point, NTT tables and generic butterflies', 'falcon::verify::<N> and its five closures (N in {1,2,4})', 'FalconVariant::parameters (real sig_bound constants)', 'Felt::{new,balanced_value,value}',
                     'encoding::decompress (real, in the `real` scenarios)']
    rep.bounds = ['toy degrees N in {1,2,4} with the real Falcon-512 and Falcon-1024 parameter sets (from_n overridden); all c, h in Z_q^N, all s2 with |s2_i| < 12160, all salts/messages',
                  'real decompress composed in for (N,L) in {(1,3),(1,4)} quick; + (1,6),(2,3),(2,4) thorough, signature bytes fully symbolic',
                  'squares are abstracted by fresh variables tied to their operands (sound over-approximation); boundary witnesses norm = bound-1, bound, bound+1 are required reachable']
    rep.outside = ['end-to-end verify::<512/1024> on fully symbolic 666/1280-byte signatures', 'SHAKE-256', 'the NTT pipeline itself (contract = C11): only its wiring is checked here']
    rep.trusted = ['mirsym summaries', 'z3', 'composition on paper: verify = glue (here) o decompress (C07) o HashToPoint (C14) o exact NTT product (C11) o exact field ops (C12)',
                   'c arbitrary canonical and c -> c - s2*h bijective, hence s1 is a free canonical vector in the glue query']
    rep.assumptions = ['oracle: Algorithm 16 with floor(beta^2) = 34034726 / 70265242 from the specification (vf/spec.py)']
    load_program(fresh=True)
    params_check(rep, ('n', 'sig_bound', 'sig_bytelen'))
    jobs = jobs_for(tier)
    results = run_jobs(jobs, workers=NCPU, order_seed=seed())
    hashes = {}
    confirmed = set()
    for job, r in zip(jobs, results):
        if r.get('error'):
            rep.oblige(1, ok=False); rep.note_inconclusive('%s: %s' % (job[2], r['error'])); continue
        hashes.update(r.get('mir_hash', {}))
        rep.states += r['paths']; rep.transitions += r['steps']; rep.queries += r['queries']; rep.solver_s += r['solver_s']
        rep.oblige(r['obligations'] - r['violable']); rep.oblige(r['violable'], ok=False)
        rep.parts.setdefault('scenarios', []).append({k: r.get(k) for k in ('tag', 'paths', 'returned', 'obligations')} | {'wall_s': round(r['wall_s'], 1),
                                                     'witnesses': {k: v['verify_returned'] for k, v in r['witnesses'].items()}})
        variant = r['variant']
        if r['mode'] == 'arbitrary' and r['n'] >= 2 and not r['bad']:
            for w in ('bound-1', 'bound', 'bound+1'):
                if w not in r['witnesses']:
                    rep.note_inconclusive('vacuity: %s cannot reach norm = %s' % (r['tag'], w))
        for s in r['samples'][:1]:
            rep.sample({'scenario': r['tag'], 'returning_path_model': s})
        for b in r['bad']:
            kind = b['kind']
            key = 'verify:' + ('acceptance-boundary' if b.get('abstract') else ('decode-failure-accepted' if 'does not decode' in kind else 'norm-or-wiring'))
            if (key, variant) in confirmed:
                continue
            norms = [b['norm']] if b.get('norm') else []
            if b.get('width') and b.get('width_bits'):
                # a narrow accumulator shows where the true norm passes a power of two of its width (wraps, saturates or panics there)
                w = b['width_bits']
                norms += [x for x in ((1 << w) + 5434, (1 << w) + spec.SIG_BOUND[variant] // 2, (1 << (w - 1)) + 5434, (1 << (w - 1)) + spec.SIG_BOUND[variant] + 7) if x > spec.SIG_BOUND[variant]]
            vecs = [(b['s2'], b['s1'])] if b.get('s1') is not None and b.get('s2') is not None and not b.get('abstract') else []
            if differential(rep, variant, battery(variant, norms, vecs), key, kind):
                confirmed.add((key, variant))
            else:
                rep.note_inconclusive('solver finding not reproduced natively: %s (%s)' % (kind, r['tag']))
        for p in r['panics']:
            key = 'verify:panic'
            if (key, variant) in confirmed:
                continue
            if differential(rep, variant, battery(variant), key, 'panic obligation violable: %s at %s' % (p['msg'], p['site']), need_panic=True):
                confirmed.add((key, variant))
            else:
                rep.note_inconclusive('violable assertion in verify not reproduced natively: %s at %s (model %s)' % (p['msg'], p['site'], p['model']))
    rep.extra.setdefault('mir_hashes', {}).update(hashes)
    # the boundary witnesses of the solver (norm = bound-1, bound, bound+1) as real Falcon-512/1024 triples through the real verify
    for variant in (512, 1024):
        key = 'verify:acceptance-boundary'
        if (key, variant) not in confirmed:
            differential(rep, variant, battery(variant)[:3], key, 'boundary witnesses replayed natively')
    # the lemmas the composition rests on are re-checked here as part of C02 (so that a breakage of verify that lives in the
    # decoder, the hash or the NTT tables is reported under this property too): C07 (decode), C14 (HashToPoint), C11 tables + small transforms
    from . import c07, c14, c11
    rep.parts['composed'] = ['C07 decompress/compress scenarios', 'C14 hash_to_point scenarios', 'C11 Kani table harnesses + engine S (quick bounds)']
    c07.run(rep, 'quick')          # the deep bounds of these lemmas are the thorough tiers of C07 / C14 themselves
    c14.run(rep, 'quick')
    c11.run_kani(rep, c11.KANI, c11.decode_table_failure)
    c11.run_s(rep, 'quick')
    if rep.violations and all('not reproduced' in x for x in rep.inconclusive):
        rep.inconclusive = []
    return rep.finish()

"""C11 — NTT-based multiplication in Z_q[X]/(X^n+1) is exact.
 K: tables and n^-1 constants (symbolic index, exhaustive).  S: the generic butterflies on symbolic terms (QF_LIA, z3).
 M: the FastFft glue for Polynomial<Felt> (which table / which constant is handed to the generic code, for each n)."""
from concurrent.futures import ThreadPoolExecutor
from ..common import *
from .. import kani, replay, spec, symfield as S
from ..mirsym import load_program
from ..mirsym.runner import run_jobs

KANI = ['c11_table_fwd', 'c11_table_inv', 'c11_ninv']


def s_jobs(tier, field='felt'):
    """(kind, n, j, timeout)"""
    jobs = []
    rt = [1, 2, 4, 8, 16, 32, 64] if tier == 'quick' else [1, 2, 4, 8, 16, 32, 64, 128, 256]
    for n in rt:
        jobs.append(('roundtrip', n, 0, 900 if n <= 64 else 3000))
        jobs.append(('mergesplit', n, 0, 900 if n <= 64 else 3000))
        if n <= 128:
            jobs.append(('roundtrip2', n, 0, 900 if n <= 64 else 3000))
            jobs.append(('splitmerge', n, 0, 900 if n <= 64 else 3000))
    mono = [1, 2, 4, 8, 16] if tier == 'quick' else [1, 2, 4, 8, 16, 32, 64]
    for n in mono:
        for j in range(n):
            jobs.append(('monomial', n, j, 900))
    return jobs


def run_s(rep, tier, field='felt', pid_key='ntt'):
    jobs = s_jobs(tier, field)
    replay.build('dev')
    verdicts = []

    def work(job):
        kind, n, j, to = job
        try:
            path = S.emit(kind, field, n, j)
        except Inconclusive as e:
            if 'PANIC' in str(e):
                return {'kind': kind, 'n': n, 'j': j, 'verdict': 'panic', 's': 0.0, 'unit': 0, 'panic': str(e)[-200:]}
            raise
        v, dt, _ = S.solve(path, timeout=to)
        res = {'kind': kind, 'n': n, 'j': j, 'verdict': v, 's': round(dt, 2), 'unit': None}
        if v != 'unsat':
            # every query is linear in the symbolic vector: a violated identity is violated on some unit vector
            for k in (range(n) if n <= 64 else list(range(0, n, max(1, n // 16)))):
                uv, udt, model = S.solve(path, extra=S.unit_extra(n, k), timeout=120, want_model=True)
                if uv == 'sat':
                    res['unit'] = k; break
                if uv != 'unsat':
                    res['unit_inconclusive'] = True
        return res
    with ThreadPoolExecutor(max_workers=NCPU) as ex:
        verdicts = list(ex.map(work, sorted(jobs, key=lambda j: -j[1])))
    # cross-check two z3 releases on the small sizes
    cross = []
    for kind, n in (('roundtrip', 8), ('roundtrip2', 8), ('mergesplit', 8), ('splitmerge', 8), ('monomial', 8)):
        path = S.emit(kind, field, n, 3 if kind == 'monomial' else 0, name='cross_%s_%s.smt2' % (kind, field))
        a = S.solve(path, timeout=300)[0]; b = S.solve(path, timeout=300, solver=S.Z3_NEW)[0]
        cross.append((kind, n, a, b))
        if a != b:
            rep.note_inconclusive('z3 4.8.12 and z3 5.x disagree on %s n=%d: %s vs %s' % (kind, n, a, b))
    rep.parts['solver_cross_check_' + field] = cross
    for r in verdicts:
        rep.queries += 1; rep.solver_s += r['s']; rep.states += 1; rep.transitions += r['n']
        if r['verdict'] == 'unsat':
            rep.oblige(1)
            continue
        rep.oblige(1, ok=False)
        if r['verdict'] == 'panic':
            # the generic butterflies panic on symbolic terms at this length: show it natively on the real transforms
            a = ','.join(str((5 * i + 1) % spec.Q) for i in range(r['n']))
            outs = [replay.both(['ntt_roundtrip', a]), replay.both(['ntt_split_merge', a]) if r['n'] >= 2 else ('', ''), replay.both(['ntt_mul', a, a])]
            rep.replayed += 1
            hit = [o for pair in outs for o in pair if o.startswith('PANIC')]
            if hit:
                rep.violation('ntt:panic', 'the generic %s code panics at n=%d (engine S: %s); natively: %s' % (r['kind'], r['n'], r['panic'][-120:], hit[0]),
                              {'replay_request': ['ntt_roundtrip', a], 'native': hit[0]})
            else:
                rep.note_inconclusive('engine S: generic code panicked at n=%d (%s) but the concrete Polynomial<Felt> transforms do not' % (r['n'], r['panic'][-120:]))
        elif r['unit'] is not None:
            confirm_s(rep, r, field)
        else:
            rep.note_inconclusive('engine S: %s n=%d j=%d -> %s and no unit-vector instance is satisfiable' % (r['kind'], r['n'], r['j'], r['verdict']))
    rep.parts['S_' + field] = [{k: v for k, v in r.items()} for r in verdicts if r['n'] >= 16 or r['verdict'] != 'unsat'][:60]
    rep.sample({'engine': 'S', 'query': 'ifft(fft(a)) != a or fft(ifft(a)) != a, a in Z_q^64 symbolic', 'verdict': [r['verdict'] for r in verdicts if r['kind'] == 'roundtrip' and r['n'] == 64]})


def confirm_s(rep, r, field):
    """replay a unit-vector counterexample natively through the real Polynomial<Felt> transforms"""
    n, k = r['n'], r['unit']
    a = [1 if i == k else 0 for i in range(n)]
    arg = ','.join(map(str, a))
    if field != 'felt':
        rep.note_inconclusive('engine S counterexample on the %s tables (n=%d, unit %d): supporting evidence only, not replayed' % (field, n, k)); return
    if r['kind'] == 'roundtrip':
        got = replay.both(['ntt_roundtrip', arg]); want = arg
    elif r['kind'] == 'roundtrip2':
        got = (replay.call1(['ntt_fwd', replay.call1(['ntt_inv', arg])]),) * 2; want = arg
    elif r['kind'] in ('splitmerge', 'mergesplit'):
        got = replay.both(['ntt_split_merge', replay.call1(['ntt_fwd', arg])]); want = replay.call1(['ntt_fwd', arg])
        # the forward transform itself is checked against the specification's evaluation
        ev = spec.evaluate(a, n)
    else:
        mono = [1 if i == r['j'] else 0 for i in range(n)]
        got = replay.both(['ntt_mul', arg, ','.join(map(str, mono))])
        want = ','.join(map(str, spec.negacyclic_mul(a, mono)))
    rep.replayed += 1
    if got[0] != want or got[1] != want:
        rep.violation('ntt:%s' % r['kind'], 'engine S: %s identity fails at n=%d on the unit vector e_%d (j=%d): real code gives %s, expected %s'
                      % (r['kind'], n, k, r['j'], got[0][:80], want[:80]), {'replay_request': [r['kind'], arg], 'dev': got[0], 'release': got[1], 'expected': want})
    else:
        rep.note_inconclusive('engine S counterexample (%s n=%d unit %d) did not reproduce through Polynomial<Felt> natively '
                              '(the generic butterflies with the crate tables disagree with the identity, the concrete impl does not)' % (r['kind'], n, k))


def run_kani(rep, harnesses, decode=None):
    res, out, secs, rc = kani.run_group(harnesses, timeout=1500, jobs=min(NCPU, len(harnesses)))
    rep.parts['kani_wall_s'] = round(secs, 1)
    for n in harnesses:
        r = res[n]
        rep.states += max(r.checks_total, 1); rep.transitions += max(r.vccs, r.checks_total); rep.queries += 1; rep.solver_s += r.time_s
        rep.sample({'harness': n, 'status': r.status, 'checks': r.checks_total, 'covers': '%d/%d' % (r.covers_sat, r.covers_total), 'solver_s': r.time_s})
        if r.status == 'SUCCESSFUL':
            if r.covers_sat != r.covers_total:
                rep.oblige(1, ok=False); rep.note_inconclusive('vacuity: harness %s has unreachable covers' % n)
            else:
                rep.oblige(max(r.checks_total, 1))
        elif r.status == 'FAILED':
            rep.oblige(max(r.checks_total, 1), ok=False)
            if r.unwind_failure:
                rep.note_inconclusive('harness %s: unwinding assertion failed' % n)
            elif decode:
                decode(rep, n, r)
        else:
            rep.oblige(1, ok=False); rep.note_inconclusive('harness %s: no verdict: %s' % (n, r.raw[-300:]))


def decode_table_failure(rep, hname, r):
    """a table harness failed: find the offending entries natively against an independent computation"""
    psi = int(replay.call1(['felt_table', 'fwd', 512]))
    bad = []
    if hname == 'c11_table_fwd':
        ok_psi = pow(psi, 1024, spec.Q) == spec.Q - 1
        for i in range(1024):
            v = int(replay.call1(['felt_table', 'fwd', i]))
            br = int(format(i, '010b')[::-1], 2)
            if not ok_psi or v != pow(psi, br, spec.Q):
                bad.append((i, v)); break
        what = 'forward twiddle table entry %s is not psi^bitrev(i) for psi = table[512] = %d (psi^1024 = %d)' % (bad[:1], psi, pow(psi, 1024, spec.Q))
    elif hname == 'c11_table_inv':
        for i in range(1024):
            f = int(replay.call1(['felt_table', 'fwd', i])); v = int(replay.call1(['felt_table', 'inv', i]))
            if f * v % spec.Q != 1:
                bad.append((i, v)); break
        what = 'inverse twiddle table entry %s is not the inverse of the forward entry' % (bad[:1],)
    else:
        for k in range(11):
            v = int(replay.call1(['felt_table', 'ninv', 1 << k]))
            if (1 << k) * v % spec.Q != 1:
                bad.append((1 << k, v)); break
        what = 'FELT_NINV_%s = %s is not n^-1 mod q' % (bad[0] if bad else '?', '')
    rep.replayed += 1
    if bad:
        rep.violation('ntt-table:' + hname, what + ' (Kani: %s)' % '; '.join(r.failed_checks[:2]), {'replay_request': ['felt_table', hname], 'entry': bad[0]})
    else:
        rep.note_inconclusive('Kani harness %s failed (%s) but no offending table entry was found natively' % (hname, r.failed_checks))


def check(tier):
    rep = Report('C11', tier)
    rep.functions = ['CyclotomicFourier::{fft, ifft, split_fft, merge_fft} (generic code, run on symbolic terms)', 'FELT_BITREVERSED_POWERS_1024, FELT_BITREVERSED_POWERS_INVERSE_1024, FELT_NINV_*',
                     '<Polynomial<Felt> as FastFft>::{fft_inplace, ifft_inplace, split_fft, merge_fft} (MIR glue)']
    rep.bounds = ['tables / constants: every index 0..1023 and all eleven n^-1 constants (symbolic index, exhaustive)',
                  'ifft(fft(a)) = a and merge(split(F)) = F: all a in Z_q^n fully symbolic, n in {1..64} quick, {1..256} thorough; fft(ifft(a)) = a and split(fft(a)) = (fft(a_even), fft(a_odd)): n <= 64 quick, <= 128 thorough',
                  'product: ifft(fft(a) .* fft(X^j)) = X^j a for all a in Z_q^n and every j < n, n <= 16 quick, n <= 64 thorough; arbitrary b follows by linearity (C12)',
                  'glue: every n in {1,2,...,1024}']
    rep.outside = ['fully symbolic transforms at n = 512 and 1024 (z3 exceeds memory): covered only structurally (size-independent butterflies + every table entry + every size-specific constant and match arm)',
                   'non power-of-two lengths']
    rep.trusted = ['Kani/CBMC', 'z3 4.8.12 (cross-checked against z3 5.x on small sizes)', 'SymFelt models a field operation as the exact ring operation mod q with canonical result: proved for Felt by C12 (engine K)']
    rep.assumptions = ['linearity of the pipeline in b (C12: + and * on Felt are the ring operations) to pass from monomials X^j to arbitrary b - an argument on paper']
    rep.extra['exhaustive'] = False
    run_kani(rep, KANI, decode_table_failure)
    run_s(rep, tier)
    from . import c11_glue
    c11_glue.run(rep, tier, 'felt')
    product_clause(rep)
    native_validation(rep)
    return rep.finish()


def product_clause(rep):
    """intt(ntt(a) .* ntt(b)) = a*b also needs the pointwise step: Polynomial::<Felt>::hadamard_mul returns one canonical element per
    slot, never panics (all operand vectors incl. zero ones; real MIR, engine M) and Felt multiplication is exact (the M part of C12:
    product cut point, cvc5 integer encoding). Findings are replayed through the real fft -> hadamard_mul -> ifft chain."""
    from . import c06_scen, c12_m
    from ..mirsym import load_program
    Qv = 12289

    def neg_product(a, b):
        n = len(a); out = [0] * n
        for i, x in enumerate(a):
            for j, y in enumerate(b):
                k = i + j
                if k < n: out[k] = (out[k] + x * y) % Qv
                else: out[k - n] = (out[k - n] - x * y) % Qv
        return out

    def replay_product(kind, what, cases):
        for a, b in cases:
            want = ','.join(map(str, neg_product(a, b)))
            req = ['ntt_mul', ','.join(map(str, a)), ','.join(map(str, b))]
            dev, rel = replay.both(req); rep.replayed += 1
            if dev != want or rel != want:
                rep.violation(kind, '%s: intt(ntt(a) .* ntt(b)) for a=%s b=%s (n=%d) is dev=%s release=%s, the negacyclic product is %s'
                              % (what, a[:4], b[:4], len(a), dev[:60], rel[:60], want[:60]), {'replay_request': req, 'expected': want, 'dev': dev[:200], 'release': rel[:200]})
                return True
        return False
    rep.functions.append('Polynomial::<Felt>::hadamard_mul (real MIR, engine M) and <Felt as Mul>::mul (M, product cut point)')
    try:
        load_program(fresh=False)
    except Exception as e:
        rep.note_inconclusive('product clause: MIR not available (%s)' % str(e)[:100]); return
    for n in (1, 2, 4):
        try:
            r = c06_scen.hadamard_scen(n, 'hadamard_mul', mul_contract=True)
        except Exception as e:
            rep.oblige(1, ok=False)
            rep.note_inconclusive('hadamard_mul contract at n=%d: %s: %s' % (n, type(e).__name__, str(e)[:160])); continue
        rep.states += r['paths']; rep.transitions += r['steps']; rep.queries += max(r['queries'], 1); rep.solver_s += r['solver_s']
        rep.extra.setdefault('mir_hashes', {}).update(r['mir_hash'])
        rep.oblige(max(r['obligations'] - r['violable'], 0)); rep.oblige(r['violable'], ok=False)
        if r['returned'] == 0 and not r['panics']:
            rep.note_inconclusive('vacuity: hadamard_mul contract at n=%d has no returning path' % n)
        for bad in r['bad'] + [{'kind': 'panic obligation: ' + p['msg']} for p in r['panics']]:
            zero = [0] * 8; some = list(range(1, 9))
            cases = [(zero, some), (some, zero), (zero, zero), ([0], [5]), ([0] * 512, [1] * 512)]
            if not replay_product('hadamard_mul', 'hadamard_mul (%s)' % bad['kind'], cases):
                rep.note_inconclusive('hadamard_mul finding at n=%d (%s) does not show natively on zero operands' % (n, bad['kind']))
            break
    try:
        r = c12_m.mul_scen('mul')
    except Exception as e:
        r = {'verdict': 'unknown', 'note': '%s: %s' % (type(e).__name__, str(e)[:160])}
    rep.states += r.get('paths', 0); rep.transitions += r.get('steps', 0); rep.queries += r.get('queries', 0); rep.solver_s += r.get('solver_s', 0.0)
    rep.sample({'engine': 'M', 'target': '<Felt as Mul>::mul', 'verdict': r.get('verdict'), 'decided_by': r.get('decided_by'), 'oracle': r.get('oracle')})
    pairs = []
    if r.get('verdict') == 'sat':
        pairs.append((r['cex']['a'], r['cex']['b']))
    for pnc in r.get('panics', []):
        pval = (pnc.get('model') or {}).get('prod_1')
        mm_ = pnc.get('model') or {}
        if pval and mm_.get('a') and mm_.get('b') and mm_['a'] * mm_['b'] == pval:
            pairs.append((mm_['a'], mm_['b']))
        elif pval:
            pr = next(((x, pval // x) for x in range(1, Qv) if pval % x == 0 and pval // x < Qv), None)
            if pr: pairs.append(pr)
    if r.get('verdict') == 'unsat' and not r.get('panics'):
        rep.oblige(max(r.get('checks', 1), 1))
    elif pairs:
        rep.oblige(1, ok=False)
        # constant polynomials have constant NTT vectors: every slot multiplies x by y
        cases = [([x], [y]) for x, y in pairs] + [([x] + [0] * 511, [y] + [0] * 511) for x, y in pairs]
        if not replay_product('felt_mul', 'Felt multiplication is not exact for %d * %d' % pairs[0], cases):
            rep.note_inconclusive('Felt multiplication counterexample %s does not show through the transform chain natively' % (pairs[0],))
    else:
        # not decided here: C12 owns the field arithmetic; recorded, the NTT claims above do not depend on it
        rep.parts['felt_mul_m_part'] = 'not conclusive here (%s); see C12' % (r.get('note') or r.get('verdict'))


def native_validation(rep):
    """the real Polynomial<Felt> transforms against the specification-level ring arithmetic of vf/spec.py on concrete vectors, at
    every power-of-two length incl. 512 and 1024 (plumbing / oracle validation; the for-all statements are the solver's)"""
    for n in [1 << k for k in range(11)]:
        a = [(37 * i * i + 11 * i + 5) % spec.Q for i in range(n)]
        b = [(i * 7 + 3) % 5 - 2 for i in range(n)]
        arg = ','.join(map(str, a))
        rt = replay.call1(['ntt_roundtrip', arg])
        if rt != arg:
            rep.violation('ntt:roundtrip-native', 'ifft(fft(a)) != a natively at n=%d' % n, {'replay_request': ['ntt_roundtrip', arg[:80]], 'got': rt[:80]}); continue
        rep.replayed += 1
        if n <= 256:
            want = ','.join(map(str, spec.negacyclic_mul(a, [x % spec.Q for x in b])))
            got = replay.call1(['ntt_mul', arg, ','.join(str(x % spec.Q) for x in b)])
            if got != want:
                rep.violation('ntt:product-native', 'NTT product differs from the schoolbook negacyclic product natively at n=%d' % n, {'replay_request': ['ntt_mul', arg[:60]], 'got': got[:80], 'expected': want[:80]}); continue
            rep.replayed += 1

"""C06 — decoding is strict: only the canonical encoding of an object is accepted. Engine M on from_bytes / to_bytes
of PublicKey, SecretKey, Signature at the production lengths with ALL bytes symbolic."""
from ..common import *
from .. import replay, spec
from ..mirsym import load_program
from ..mirsym.runner import run_jobs

MOD = 'vf.props.c06_scen'
LEN = {'PublicKey': spec.PK_BYTELEN, 'SecretKey': spec.SK_BYTELEN, 'Signature': spec.SIG_BYTELEN}


def parse_jobs(tier, types=('Signature', 'PublicKey', 'SecretKey'), with_bad_lengths=True):
    jobs = []
    for w in range(1, 9):
        jobs.append((MOD, 'deser_field_scen', dict(width=w)))
    for what in types:
        for N in (512, 1024):
            other = 1024 if N == 512 else 512
            L = LEN[what][N]
            if what == 'SecretKey' and tier == 'quick':
                # quick: header + three 40-byte windows symbolic in each of f, g, F (start / middle / end of each polynomial), the rest zero;
                # the thorough tier has every byte symbolic (about 10-20 min)
                w = 6 if N == 512 else 5
                sym = {0}
                for off, width in ((0, w), (N * w // 8, w), (2 * N * w // 8, 8)):
                    plen = N * width // 8
                    for a in (0, plen // 2 - 20, plen - 40):
                        sym.update(range(1 + off + a, 1 + off + a + 40))
                fixed = {i: 0 for i in range(L) if i not in sym}
                jobs.append((MOD, 'parse_scen', dict(what=what, N=N, L=L, fixed=fixed, deadline_s=3000, tag='%s::<%d>::from_bytes L=%d (%d bytes symbolic in 9 windows + header)' % (what, N, L, len(sym)))))
            else:
                jobs.append((MOD, 'parse_scen', dict(what=what, N=N, L=L, deadline_s=3000)))
            if with_bad_lengths:
                for bad in sorted(set([0, 1, 2, L - 1, L + 1, LEN[what][other]])):
                    jobs.append((MOD, 'parse_scen', dict(what=what, N=N, L=bad, deadline_s=3000, tag='%s::<%d>::from_bytes wrong length %d' % (what, N, bad))))
    # biggest first
    jobs.sort(key=lambda j: -(j[2].get('L', 0) * (3 if j[2].get('what') == 'SecretKey' else 1)))
    return jobs


def hexs(bs):
    return bytes(bs).hex() if bs else '-'


def confirm_parse_bad(rep, r, b):
    what, N = r['what'], r['N']
    req = ['parse', what, N, hexs(b['input'])]
    dev, rel = replay.both(req)
    rep.replayed += 1
    for prof, out in (('dev', dev), ('release', rel)):
        if out.startswith('PANIC'):
            rep.violation('%s::from_bytes:panic' % what, '%s::<%d>::from_bytes panics on a %d-byte input: %s [%s]' % (what, N, len(b['input']), out, prof),
                          {'replay_request': req, 'dev': dev, 'release': rel})
            return True
        if out.startswith('Ok ') and 'reserved' in b.get('kind', '') and what == 'SecretKey':
            # the oracle of the specification on the concrete input: which field holds 1 0...0 ?
            inb = b['input']; w_ = 6 if N == 512 else 5
            bits = ''.join(format(x, '08b') for x in inb[1:])
            hit = None; pos = 0
            for sec, wd in (('f', w_), ('g', w_), ('F', 8)):
                for k_ in range(N):
                    if bits[pos:pos + wd] == '1' + '0' * (wd - 1) and hit is None:
                        hit = (sec, k_)
                    pos += wd
            if hit:
                rep.violation('SecretKey::from_bytes:reserved-value-accepted', 'SecretKey::<%d>::from_bytes accepts a string whose field %s[%d] holds the reserved minimum value (1 followed by zeros) [%s]'
                              % (N, hit[0], hit[1], prof), {'replay_request': req, 'dev': dev[:80], 'release': rel[:80], 'field': list(hit)})
                return True
        if out.startswith('Ok '):
            re_enc = out[3:]
            if re_enc != hexs(b['input']):
                d = [i for i in range(min(len(re_enc) // 2, len(b['input']))) if int(re_enc[2 * i:2 * i + 2], 16) != b['input'][i]]
                rep.violation('%s::from_bytes:non-canonical-accept' % what,
                              '%s::<%d>::from_bytes accepts a string that is not the canonical encoding of what it decodes to: input byte %s = %s, re-encoded = %s [%s]'
                              % (what, N, d[:3], [b['input'][i] for i in d[:3]], [int(re_enc[2 * i:2 * i + 2], 16) for i in d[:3]], prof),
                              {'replay_request': req, 'dev': dev[:80], 'release': rel[:80], 'first_diff_bytes': d[:8]})
                return True
    rep.note_inconclusive('parser finding did not reproduce natively: %s %s -> %s' % (r['tag'], b['kind'], dev[:60]))
    return False


def confirm_field_bad(rep, r, b):
    bits = ''.join(str(x) for x in b['bits'])
    dev, rel = replay.both(['field_decode', bits])
    rep.replayed += 1
    w = len(bits)
    val = int(bits, 2) - ((1 << w) if bits[0] == '1' else 0)
    reserved = bits[0] == '1' and set(bits[1:]) <= {'0'}
    exp = 'Err BadFieldElementEncoding' if reserved else 'Ok %d' % (val % spec.Q)
    if dev != exp or rel != exp:
        rep.violation('SecretKey::deserialize_field_element:contract', 'deserialize_field_element(%s) = %s / %s, specification: %s' % (bits, dev, rel, exp),
                      {'replay_request': ['field_decode', bits], 'dev': dev, 'release': rel, 'expected': exp})
        return True
    rep.note_inconclusive('field decoder finding did not reproduce: %s -> %s' % (bits, dev))
    return False


def absorb(rep, jobs, results, accepted_lengths=True):
    hashes = {}
    for job, r in zip(jobs, results):
        if r.get('error'):
            rep.oblige(1, ok=False); rep.note_inconclusive('%s %s: %s' % (job[1], job[2], r['error'])); continue
        hashes.update(r.get('mir_hash', {}))
        rep.states += r['paths']; rep.transitions += r['steps']; rep.queries += r['queries']; rep.solver_s += r['solver_s']
        rep.oblige(r['obligations'] - r['violable']); rep.oblige(r['violable'], ok=False)
        rep.parts.setdefault('scenarios', []).append({k: r.get(k) for k in ('tag', 'paths', 'ok', 'err', 'obligations', 'symbolic_bytes', 'deferred_obligations')} | {'wall_s': round(r['wall_s'], 1)})
        if job[1] == 'deser_field_scen':
            for b in r['bad']:
                confirm_field_bad(rep, r, b)
            for p in r['panics']:
                confirm_field_bad(rep, r, {'bits': p['bits']})
            continue
        L, N, what = r['L'], r['N'], r['what']
        if L == LEN[what][N]:
            if r['ok'] == 0 and not r['panics']:
                rep.note_inconclusive('vacuity: %s has no accepting path' % r['tag'])
            for s in r.get('samples', [])[:1]:
                rep.sample({'scenario': r['tag'], 'accepting_path_model': {'accepted_input_prefix': s['accepted_input_prefix']}})
                # translator validation: the accepted input mirsym found must be accepted and re-encoded identically by the real code
                if s.get('accepted_input') is not None:
                    got = replay.call1(['parse', what, N, hexs(s['accepted_input'])])
                    if got == 'Ok ' + hexs(s['accepted_input']):
                        rep.replayed += 1
                    elif got.startswith('PANIC'):
                        rep.replayed += 1
                        rep.violation('%s::from_bytes:panic' % what, '%s::<%d>::from_bytes panics on a well-formed input (a sample of the accepting path): %s' % (what, N, got),
                                      {'replay_request': ['parse', what, N, hexs(s['accepted_input'])[:80] + '...'], 'dev': got})
                    else:
                        rep.note_inconclusive('translator validation failed (%s): mirsym accepts an input the real code answers with %s' % (r['tag'], got[:60]))
        elif r['ok'] > 0:
            # an accepted wrong length: exhibit it
            rep.oblige(1, ok=False)
            confirm_parse_bad(rep, r, {'input': [0] * L, 'kind': 'wrong length accepted'}) or None
        for b in r['bad']:
            confirm_parse_bad(rep, r, b)
        for p in r['panics']:
            confirm_parse_bad(rep, r, {'input': p['input'], 'kind': 'panic ' + p['msg']})
    rep.extra.setdefault('mir_hashes', {}).update(hashes)


def check(tier):
    rep = Report('C06', tier)
    rep.functions = ['falcon::{PublicKey,SecretKey,Signature}::<N>::{from_bytes,to_bytes} for N in {512,1024}', 'SecretKey::{deserialize,serialize}_field_element',
                     'SecretKey::field_element_width', 'FalconVariant::{from_n,parameters}', 'Felt::{new,value,balanced_value}', '<Polynomial<i16> as Neg>', 'Polynomial::map']
    rep.bounds = ['content: every byte of the 897/1793 (pk) and 666/1280 (sig) byte buffers is symbolic; secret keys (1281/2305 bytes): quick = header + nine 40-byte windows symbolic (rest zero), thorough = every byte symbolic',
                  'lengths: the accepted length, 0, 1, 2, accepted-1, accepted+1 and the other variant\'s length',
                  'secret-key field decoder: all widths 1..8, all bit patterns']
    rep.outside = ['other wrong lengths than the six listed per type', 'SecretKey: equality concerns f, g, F (what to_bytes emits); G and the LDL tree are recomputed by floating-point code outside M']
    rep.trusted = ['mirsym library summaries (BitVec, Vec, itertools::chunks, iterator adaptors, collect::<Result<..>>, Try)', 'z3',
                   'summary of deserialize_field_element inside SecretKey::from_bytes = its contract, which deser_field_scen checks against the real MIR for all widths',
                   'NTT pipeline and from_b0 in SecretKey::from_bytes replaced by arbitrary canonical results (do not reach to_bytes)']
    rep.assumptions = ['strictness is decided as: from_bytes(b) = Ok(x) implies to_bytes(x) = b bit for bit, on every accepting path; wrong lengths must have no accepting path']
    load_program(fresh=True)
    jobs = parse_jobs(tier)
    results = run_jobs(jobs, workers=NCPU, order_seed=0)
    absorb(rep, jobs, results)
    return rep.finish()

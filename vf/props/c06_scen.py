"""Worker-side scenarios for C06 / C05 / C03 (parsers): engine M on from_bytes / to_bytes of the three object types."""
import time
import z3
from ..mirsym import *
from ..mirsym.interp import simp, binop, cast_int
from ..mirsym.summaries import it_drain, to_iter
from .. import spec
from .c07_scen import prog, bits_of, zb

Q = spec.Q


def bvt(v, w=8):
    return z3.BitVecVal(v.t, w) if v.conc else v.t


def nested(ex, fnkey, args, env, cb):
    """explore another function under the current path condition; cb(ex, st, rv) on each returning path"""
    saved = ex.on_return
    cnt = {'n': 0}

    def on2(ex2, st2, rv2):
        cnt['n'] += 1
        cb(ex2, st2, rv2)
    ex.on_return = on2
    try:
        st2 = ex.start(ex.prog.by_key[fnkey], args, env=env)
        ex.explore(st2)
    finally:
        ex.on_return = saved
    return cnt['n']


# ---------------------------------------------------------------------------------------------- secret-key field codec
def field_contract(bits):
    """specification of one fixed-width two's complement secret-key field: (is_reserved_minimum, value as 16-bit signed term)"""
    w = len(bits)
    bz = [zb(b) for b in bits]
    err = z3.And(bz[0], *[z3.Not(b) for b in bz[1:]]) if w > 1 else bz[0]
    one = [z3.If(b, z3.BitVecVal(1, 1), z3.BitVecVal(0, 1)) for b in bz]
    val = z3.Concat(*one) if w > 1 else one[0]
    val = z3.SignExt(16 - w, val)
    return simp(err), simp(val)


def deser_field_scen(width, tag=''):
    """real MIR of SecretKey::deserialize_field_element on `width` symbolic bits vs the field contract"""
    P = prog()
    ex = new_exec(P)
    bits = [ex.new_input('b%d' % i, 'bool') for i in range(width)]
    err, val = field_contract([b.t for b in bits])
    bad = []; out = {'ok': 0, 'err': 0, 'checks': 0}

    def on_ret(ex, st, rv):
        out['checks'] += 1
        if rv.variant == 'Err':
            out['err'] += 1
            ok, m = ex.check(z3.Not(err))
            if ok:
                bad.append({'kind': 'field decoder rejects a non-reserved pattern', 'bits': [int(ex.eval_int(m, b)) for b in bits]})
            return
        out['ok'] += 1
        felt = rv.f[0]                     # Felt(u32)
        raw = felt.f[0]
        want = z3.SRem(z3.SignExt(16, val), z3.BitVecVal(Q, 32))
        want = z3.If(want < 0, want + Q, want)
        ok, m = ex.check(z3.Or(err, bvt(raw, 32) != want))
        if ok:
            bad.append({'kind': 'field decoder accepts the reserved pattern or decodes a wrong value', 'bits': [int(ex.eval_int(m, b)) for b in bits],
                        'got': ex.eval_int(m, raw)})
    ex.on_return = on_ret
    fn = P.by_key['SecretKey::deserialize_field_element']
    st = ex.start(fn, [temp_ref(Seq('bitvec', bits))], env={'N': 512})
    ex.explore(st)
    panics = [{'msg': p['msg'], 'site': p['site'], 'bits': [int(p['inputs']['b%d' % i]) for i in range(width)]} for p in ex.panics[:5]]
    asserts = sum(c[0] for c in ex.assert_sites.values())
    return {'tag': tag or 'deserialize_field_element width %d' % width, 'width': width, 'paths': ex.paths, 'queries': ex.nq, 'solver_s': ex.solver_s, 'steps': ex.steps,
            'ok': out['ok'], 'err': out['err'], 'bad': bad, 'panics': panics, 'obligations': asserts + out['checks'],
            'violable': len(bad) + len(panics), 'mir_hash': {'deserialize_field_element': fn.hash}}


def ov_deser_field(ex, st, fr, args, info):
    """summary used inside SecretKey::from_bytes: the contract checked by deser_field_scen; Felt::new is still the real MIR"""
    bv_ = ex.load(st, args[0].loc)
    bits = list(bv_.e)
    if len(bits) == 0:
        from ..mirsym.summaries import lib_panic
        lib_panic(ex, st, fr, 'index out of bounds: bits[0] on an empty field')
    err, val = field_contract([b.t if not b.conc else bool(b.t) for b in bits])
    v16 = lift(val, 'i16')
    newfn = ex.prog.by_key['Felt::new']
    felt = ex.call_value(st, FnItem('Felt::new'), [v16])
    if z3.is_false(err):
        return Ok(felt)
    return SymResult(err, felt, Agg('FalconDeserializationError', 'BadFieldElementEncoding', ()))


def fresh_poly(ex, n, name):
    es = []
    for i in range(n):
        v = ex.new_input('%s%d' % (name, i), 'u32')
        ex.assume(z3.ULT(v.t, Q))
        es.append(Agg('Felt', None, (v,)))
    return Agg('Polynomial', None, (Seq('vec', es),))


def sk_overrides(ex, N):
    """the algebraic tail of SecretKey::from_bytes is outside M: NTT pipeline -> arbitrary canonical polynomial (sound
    over-approximation; G does not reach to_bytes), from_b0 -> the b0 array with an opaque tree"""
    cnt = {'g': 0}

    def ov_fft(ex, st, fr, args, info):
        return Opaque('ntt', (ex.deref(st, args[0]),))

    def ov_hadamard(ex, st, fr, args, info):
        return Opaque('ntt', ())

    def ov_ifft(ex, st, fr, args, info):
        cnt['g'] += 1
        return fresh_poly(ex, N, 'G%d_' % cnt['g'])

    def ov_from_b0(ex, st, fr, args, info):
        return Agg('SecretKey', None, (args[0], Opaque('tree')))
    return {'SecretKey::deserialize_field_element': ov_deser_field,
            '<Polynomial<Felt> as FastFft>::fft': ov_fft, '<Polynomial<Felt> as FastFft>::ifft': ov_ifft,
            'Polynomial::hadamard_div': ov_hadamard, 'Polynomial::hadamard_mul': ov_hadamard,
            'SecretKey::from_b0': ov_from_b0}


# ---------------------------------------------------------------------------------------------- from_bytes -> to_bytes
def parse_scen(what, N, L, fixed=None, chunk=2, deadline_s=None, tag=''):
    """T::<N>::from_bytes(b), |b| = L, all bytes symbolic (fixed: {index: value}). Every path must end in Ok/Err without
    a violable assertion; on every Ok path to_bytes(x) must reproduce b bit for bit (queried per `chunk` bytes)."""
    t_end = time.time() + deadline_s if deadline_s else None
    holder = {}

    def build(sites):
        r = _parse_scen(what, N, L, fixed, chunk, t_end, tag, sites)
        holder['r'] = r
        return r['_ex'], r
    ex, r = run_with_defer(build)
    r.pop('_ex')
    r['deferred_obligations'] = ex.n_deferred
    r['obligations'] += ex.n_deferred
    r['queries'] += ex.nq_aux
    r['solver_s'] = ex.solver_s
    return r


def _parse_scen(what, N, L, fixed, chunk, t_end, tag, sites):
    P = prog()
    ex = new_exec(P)
    ex.defer = sites is not None
    ex.nodefer_sites = set(sites or ())
    if what == 'SecretKey':
        ex.over.update(sk_overrides(ex, N))
    ex.deadline = t_end
    xs = []
    for i in range(L):
        if fixed and i in fixed:
            xs.append(mkint(fixed[i], 'u8'))
        else:
            xs.append(ex.new_input('x%d' % i, 'u8'))
    out = {'ok': 0, 'err': {}, 'bad': [], 'checks': 0, 'samples': []}

    def inp(m):
        return [ex.eval_int(m, x) for x in xs]

    def on_ret(ex, st, rv):
        if isinstance(rv, SymResult):
            raise Unsupported('symbolic Result escaped from_bytes')
        if rv.variant == 'Err':
            e = rv.f[0]
            out['err'][e.variant] = out['err'].get(e.variant, 0) + 1
            return
        out['ok'] += 1
        obj = rv.f[0]
        if len(out['samples']) < 1:
            out['samples'].append({'accepted_input_prefix': inp(ex.model())[:24], 'accepted_input': inp(ex.model())})

        if what == 'SecretKey' and L == 1 + (2 * N * (6 if N == 512 else 5) + 8 * N) // 8:
            # the reserved minimum value (1 0...0) of a secret-key field must not occur in an accepted string - also where a parser reads a
            # section without going through deserialize_field_element (re-encoding alone would not show it: -2^(w-1) re-encodes to itself)
            w_ = 6 if N == 512 else 5
            conds = []
            for sec, (wd, base) in enumerate(((w_, 8), (w_, 8 + N * w_), (8, 8 + 2 * N * w_))):
                for k_ in range(N):
                    o = base + k_ * wd
                    b0, b1 = o // 8, (o + wd - 1) // 8
                    if all(xs[j].conc for j in range(b0, b1 + 1)):
                        val = 0
                        for j in range(b0, b1 + 1): val = (val << 8) | (xs[j].t & 255)
                        fld = (val >> (8 * (b1 - b0 + 1) - (o - 8 * b0) - wd)) & ((1 << wd) - 1)
                        if fld == 1 << (wd - 1):
                            conds.append((sec, k_, z3.BoolVal(True)))
                        continue
                    t_ = bvt(xs[b0]) if b0 == b1 else z3.Concat(*[bvt(xs[j]) for j in range(b0, b1 + 1)])
                    hi = 8 * (b1 - b0 + 1) - (o - 8 * b0) - 1
                    conds.append((sec, k_, z3.Extract(hi, hi - wd + 1, t_) == z3.BitVecVal(1 << (wd - 1), wd)))
            for c0 in range(0, len(conds), 16):
                grp = conds[c0:c0 + 16]
                out['checks'] += 1
                okr, _ = ex.check_local(z3.Or(*[c for _, _, c in grp]))
                if okr:
                    mr = ex.check(z3.Or(*[c for _, _, c in grp]))[1]
                    which = [(('f', 'g', 'F')[sec], k_) for sec, k_, c in grp if z3.is_true(mr.eval(c, model_completion=True))]
                    out['bad'].append({'kind': 'accepted secret key holds the reserved minimum value in field %s[%d]' % which[0] if which else 'accepted secret key holds a reserved field value', 'input': inp(mr)})
                    break

        def on_tb(ex2, st2, rv2):
            by = list(rv2.e)
            out['checks'] += 1
            if len(by) != L:
                out['bad'].append({'kind': 'to_bytes length %d differs from accepted input length %d' % (len(by), L), 'input': inp(ex.model())})
                return
            for c0 in range(0, L, chunk):
                diffs = [bvt(a) != bvt(b) for a, b in zip(by[c0:c0 + chunk], xs[c0:c0 + chunk]) if not (a.conc and b.conc and a.t == b.t)]
                if not diffs:
                    continue
                out['checks'] += 1
                ok, m = ex.check_local(z3.Or(*diffs))
                if ok:
                    m = ex.check(z3.Or(*diffs))[1]      # full model for the report
                    i_ = inp(m); o_ = [ex.eval_int(m, b) for b in by]
                    d = [i for i in range(L) if i_[i] != o_[i]]
                    out['bad'].append({'kind': 'accepted input is not the canonical encoding of the decoded object', 'input': i_,
                                       'first_diff_byte': d[0] if d else None, 'reencoded_at_diff': [o_[i] for i in d[:4]], 'input_at_diff': [i_[i] for i in d[:4]]})
                    return
        n2 = nested(ex, what + '::to_bytes', [temp_ref(obj)], {'N': N}, on_tb)
        if n2 == 0:
            out['bad'].append({'kind': 'to_bytes of an accepted object never returns', 'input': inp(ex.model())})
    ex.on_return = on_ret
    fn = P.by_key[what + '::from_bytes']
    st = ex.start(fn, [temp_ref(Seq('arr', xs), (0, L))], env={'N': N})
    ex.explore(st)
    panics = []
    seen = set()
    for p in ex.panics:
        k = (p['msg'], p['site'])
        if k in seen: continue
        seen.add(k)
        i_ = p['inputs'] or {}
        panics.append({'msg': p['msg'], 'site': p['site'], 'fn': p['fn'], 'input': [i_.get('x%d' % i, xs[i].t if xs[i].conc else 0) for i in range(L)]})
    asserts = sum(c[0] for c in ex.assert_sites.values())
    return {'_ex': ex, 'tag': tag or '%s::<%d>::from_bytes L=%d' % (what, N, L), 'what': what, 'N': N, 'L': L, 'paths': ex.paths, 'queries': ex.nq, 'solver_s': ex.solver_s,
            'steps': ex.steps, 'ok': out['ok'], 'err': out['err'], 'bad': out['bad'][:5], 'panics': panics[:5],
            'obligations': asserts + out['checks'] + ex.paths, 'violable': len(out['bad']) + len(panics), 'samples': out['samples'],
            'symbolic_bytes': len([x for x in xs if not x.conc]),
            'mir_hash': {what + '::from_bytes': fn.hash, what + '::to_bytes': P.by_key[what + '::to_bytes'].hash}}


# ---------------------------------------------------------------------------------------------- to_bytes -> from_bytes (C05)
def roundtrip_scen(what, N, chunk=2, deadline_s=None, tag='', window=None):
    """for EVERY object of the representable set: |to_bytes(x)| is the variant's constant and from_bytes(to_bytes(x)) = Ok(x')
    with x' equal to x on h / (r, s) / (f, g, F). `window` = (lo, hi): only coefficients lo..hi are symbolic (others 0)."""
    t_end = time.time() + deadline_s if deadline_s else None

    def build(sites):
        r = _roundtrip_scen(what, N, chunk, t_end, tag, window, sites)
        return r['_ex'], r
    ex, r = run_with_defer(build)
    r.pop('_ex')
    return r


def _roundtrip_scen(what, N, chunk, t_end, tag, window, sites):
    P = prog()
    ex = new_exec(P)
    ex.defer = sites is not None
    ex.nodefer_sites = set(sites or ())
    ex.deadline = t_end
    if what == 'SecretKey':
        ex.over.update(sk_overrides(ex, N))
    L = {'PublicKey': spec.PK_BYTELEN, 'SecretKey': spec.SK_BYTELEN, 'Signature': spec.SIG_BYTELEN}[what][N]
    lo, hi = window if window else (0, N)

    def sym_i16(name, bound):
        v = ex.new_input(name, 'i16')
        ex.assume(z3.And(v.t >= -bound, v.t <= bound))
        return v
    fields = {}
    if what == 'PublicKey':
        hs = []
        for i in range(N):
            if lo <= i < hi:
                v = ex.new_input('h%d' % i, 'u32'); ex.assume(z3.ULT(v.t, Q))
            else:
                v = mkint(0, 'u32')
            hs.append(v)
        obj = Agg('PublicKey', None, (Agg('Polynomial', None, (Seq('vec', [Agg('Felt', None, (v,)) for v in hs]),)),))
        fields['h'] = hs
    elif what == 'Signature':
        r = [ex.new_input('r%d' % i, 'u8') for i in range(40)]
        s = [ex.new_input('s%d' % i, 'u8') for i in range(L - 41)]
        obj = Agg('Signature', None, (Seq('arr', r), Seq('vec', s)))
        fields['r'] = r; fields['s'] = s
    else:
        wfg = 6 if N == 512 else 5
        bfg = (1 << (wfg - 1)) - 1
        f = [sym_i16('f%d' % i, bfg) if lo <= i < hi else mkint(0, 'i16') for i in range(N)]
        g = [sym_i16('g%d' % i, bfg) if lo <= i < hi else mkint(0, 'i16') for i in range(N)]
        F = [sym_i16('F%d' % i, 127) if lo <= i < hi else mkint(0, 'i16') for i in range(N)]
        G = [mkint(0, 'i16')] * N

        def pol(v):
            return Agg('Polynomial', None, (Seq('vec', v),))
        # b0 = [g, -f, G, -F]; the object stores -f and -F
        negf = [V(-x.t, 'i16') if not x.conc else mkint(-x.t, 'i16') for x in f]
        negF = [V(-x.t, 'i16') if not x.conc else mkint(-x.t, 'i16') for x in F]
        obj = Agg('SecretKey', None, (Seq('arr', [pol(g), pol(negf), pol(G), pol(negF)]), Opaque('tree')))
        fields['f'] = f; fields['g'] = g; fields['F'] = F
    out = {'bad': [], 'checks': 0, 'tb': 0, 'fb_ok': 0, 'fb_err': 0, 'samples': []}

    def mi(m):
        return {k: v for k, v in list(ex.model_inputs(m).items())[:40]}

    def on_tb(ex1, st1, rv1):
        out['tb'] += 1
        by = list(rv1.e)
        out['checks'] += 1
        if len(by) != L:
            out['bad'].append({'kind': '%s::to_bytes returns %d bytes, the format says %d' % (what, len(by), L), 'model': mi(ex.model())})
            return

        def on_fb(ex2, st2, rv2):
            if isinstance(rv2, SymResult):
                raise Unsupported('symbolic result escaped')
            out['checks'] += 1
            if rv2.variant == 'Err':
                out['fb_err'] += 1
                out['bad'].append({'kind': 'from_bytes(to_bytes(x)) = Err(%s) for a representable object' % rv2.f[0].variant, 'model': mi(ex.model())})
                return
            out['fb_ok'] += 1
            got = rv2.f[0]
            pairs = []
            if what == 'PublicKey':
                gh = got.f[0].f[0].e
                pairs = [(a.f[0], b) for a, b in zip(gh, fields['h'])]
                if len(gh) != N: pairs = None
            elif what == 'Signature':
                pairs = list(zip(got.f[0].e, fields['r'])) + list(zip(got.f[1].e, fields['s']))
                if len(got.f[1].e) != len(fields['s']): pairs = None
            else:
                b0 = got.f[0].e
                gg = b0[0].f[0].e; gnf = b0[1].f[0].e; gnF = b0[3].f[0].e
                if len(gg) != N or len(gnf) != N or len(gnF) != N:
                    pairs = None
                else:
                    pairs = list(zip(gg, fields['g'])) + [(a, V(-b.t, 'i16') if not b.conc else mkint(-b.t, 'i16')) for a, b in zip(gnf, fields['f'])] + \
                            [(a, V(-b.t, 'i16') if not b.conc else mkint(-b.t, 'i16')) for a, b in zip(gnF, fields['F'])]
            if pairs is None:
                out['bad'].append({'kind': 'decoded object has the wrong shape', 'model': mi(ex.model())}); return
            step = 8
            for c0 in range(0, len(pairs), step):
                ds = []
                for a, b in pairs[c0:c0 + step]:
                    if a.conc and b.conc:
                        if a.t != b.t: ds.append(z3.BoolVal(True))
                        continue
                    w = WIDTH[a.ty]
                    ds.append((z3.BitVecVal(a.t, w) if a.conc else a.t) != (z3.BitVecVal(b.t, w) if b.conc else b.t))
                if not ds: continue
                out['checks'] += 1
                ok, m = ex.check_local(z3.Or(*ds))
                if ok:
                    m = ex.check(z3.Or(*ds))[1]
                    out['bad'].append({'kind': 'from_bytes(to_bytes(x)) differs from x (field group %d)' % c0, 'model': mi(m)})
                    return
            if len(out['samples']) < 1:
                out['samples'].append({'object_fields': {k: len(v) for k, v in fields.items()}, 'encoded_len': len(by), 'model': ex.model_inputs(ex.model())})
        nested(ex, what + '::from_bytes', [temp_ref(Seq('arr', by), (0, len(by)))], {'N': N}, on_fb)
    ex.on_return = on_tb
    st = ex.start(P.by_key[what + '::to_bytes'], [temp_ref(obj)], env={'N': N})
    ex.explore(st)
    panics = [{'msg': p['msg'], 'site': p['site'], 'model': {k: v for k, v in list((p['inputs'] or {}).items())[:40]}} for p in ex.panics[:4]]
    asserts = sum(c[0] for c in ex.assert_sites.values())
    return {'_ex': ex, 'tag': tag or '%s::<%d> to_bytes -> from_bytes%s' % (what, N, (' coefficients %d..%d symbolic' % (lo, hi)) if window else ''), 'what': what, 'N': N, 'L': L,
            'paths': ex.paths, 'queries': ex.nq + ex.nq_aux, 'solver_s': ex.solver_s, 'steps': ex.steps, 'to_bytes_paths': out['tb'], 'ok': out['fb_ok'], 'err': out['fb_err'],
            'bad': out['bad'][:5], 'panics': panics, 'obligations': asserts + out['checks'] + ex.n_deferred, 'violable': len(out['bad']) + len(panics),
            'samples': out['samples'], 'mir_hash': {what + '::to_bytes': P.by_key[what + '::to_bytes'].hash, what + '::from_bytes': P.by_key[what + '::from_bytes'].hash}}


# ---------------------------------------------------------------------------------------------- Z_q tail of SecretKey::from_bytes
def hadamard_scen(n, which='hadamard_div', mul_contract=False):
    """contract of the summaries used for the Z_q tail of SecretKey::from_bytes: Polynomial::<Felt>::hadamard_div / hadamard_mul
    never panic and return n canonical elements, for ALL canonical operand vectors (incl. zero divisors). Real MIR of the generic
    Polynomial code and of Inverse::batch_inverse_or_zero; Felt::inverse_or_zero is summarised by its contract (C12, engine K)."""
    P = prog()
    ex = new_exec(P)

    def felts(name):
        out = []
        for i in range(n):
            v = ex.new_input('%s%d' % (name, i), 'u32'); ex.assume(z3.ULT(v.t, Q)); out.append(Agg('Felt', None, (v,)))
        return out

    def ov_inv(ex, st, fr, args, info):
        a = args[0].f[0]
        cnt = ex.user.setdefault('ninv', [0]); cnt[0] += 1
        r = ex.new_input('inv%d' % cnt[0], 'u32')
        ex.assume(z3.ULT(r.t, Q))
        at = z3.BitVecVal(a.t, 32) if a.conc else a.t
        ex.assume(z3.If(at == 0, r.t == 0, z3.URem(z3.ZeroExt(32, at) * z3.ZeroExt(32, r.t), z3.BitVecVal(Q, 64)) == 1))
        return Agg('Felt', None, (r,))
    ex.over['<Felt as Inverse>::inverse_or_zero'] = ov_inv
    if mul_contract:
        # Felt multiplication by its contract (a canonical element; exactness is C12's): keeps this scenario independent of how Mul reduces
        def ov_mul(ex, st, fr, args, info):
            cnt = ex.user.setdefault('nmul', [0]); cnt[0] += 1
            r = ex.new_input('mul%d' % cnt[0], 'u32')
            ex.assume(z3.ULT(r.t, Q))
            return Agg('Felt', None, (r,))
        ex.over['<Felt as Mul>::mul'] = ov_mul
    ex.deadline = time.time() + 600
    a = Agg('Polynomial', None, (Seq('vec', felts('a')),)); b = Agg('Polynomial', None, (Seq('vec', felts('b')),))
    out = {'ret': 0, 'bad': []}

    def on_ret(ex, st, rv):
        out['ret'] += 1
        cs = rv.f[0].e
        if len(cs) != n:
            out['bad'].append({'kind': '%s returns %d coefficients for operands of length %d' % (which, len(cs), n)}); return
        for c in cs:
            raw = c.f[0]
            if not raw.conc:
                ok, _ = ex.check_local(z3.UGE(raw.t, Q))
                if ok:
                    out['bad'].append({'kind': '%s returns a non-canonical element' % which}); return
    ex.on_return = on_ret
    fn = P.by_key['Polynomial::' + which]
    st = ex.start(fn, [temp_ref(a), temp_ref(b)], env={'F': 'Felt'})
    ex.explore(st)
    panics = [{'msg': p['msg'], 'site': p['site'], 'model': p['inputs']} for p in ex.panics[:3]]
    asserts = sum(c[0] for c in ex.assert_sites.values())
    return {'tag': 'Polynomial::<Felt>::%s on all operand vectors of length %d' % (which, n), 'which': which, 'n': n, 'paths': ex.paths, 'queries': ex.nq, 'solver_s': ex.solver_s,
            'steps': ex.steps, 'returned': out['ret'], 'bad': out['bad'][:3], 'panics': panics, 'obligations': asserts + out['ret'], 'violable': len(out['bad']) + len(panics),
            'mir_hash': {'Polynomial::' + which: fn.hash}}

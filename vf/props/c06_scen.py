"""Worker-side scenarios for C06 / C05 / C03 (parsers): engine M on from_bytes / to_bytes of the three object types."""
import time
import z3
from ..mirsym import *
from ..mirsym.interp import simp, binop, cast_int
from ..mirsym.summaries import it_drain, to_iter
from .. import spec
from .c07_scen import prog, bits_of, zb

Q = spec.Q


def bvt(v, w=8):
    return z3.BitVecVal(v.t, w) if v.conc else v.t


def nested(ex, fnkey, args, env, cb):
    """explore another function under the current path condition; cb(ex, st, rv) on each returning path"""
    saved = ex.on_return
    cnt = {'n': 0}

    def on2(ex2, st2, rv2):
        cnt['n'] += 1
        cb(ex2, st2, rv2)
    ex.on_return = on2
    try:
        st2 = ex.start(ex.prog.by_key[fnkey], args, env=env)
        ex.explore(st2)
    finally:
        ex.on_return = saved
    return cnt['n']


# ---------------------------------------------------------------------------------------------- secret-key field codec
def field_contract(bits):
    """specification of one fixed-width two's complement secret-key field: (is_reserved_minimum, value as 16-bit signed term)"""
    w = len(bits)
    bz = [zb(b) for b in bits]
    err = z3.And(bz[0], *[z3.Not(b) for b in bz[1:]])
    val = z3.Concat(*[z3.If(b, z3.BitVecVal(1, 1), z3.BitVecVal(0, 1)) for b in bz])
    val = z3.SignExt(16 - w, val)
    return simp(err), simp(val)


def deser_field_scen(width, tag=''):
    """real MIR of SecretKey::deserialize_field_element on `width` symbolic bits vs the field contract"""
    P = prog()
    ex = new_exec(P)
    bits = [ex.new_input('b%d' % i, 'bool') for i in range(width)]
    err, val = field_contract([b.t for b in bits])
    bad = []; out = {'ok': 0, 'err': 0, 'checks': 0}

    def on_ret(ex, st, rv):
        out['checks'] += 1
        if rv.variant == 'Err':
            out['err'] += 1
            ok, m = ex.check(z3.Not(err))
            if ok:
                bad.append({'kind': 'field decoder rejects a non-reserved pattern', 'bits': [int(ex.eval_int(m, b)) for b in bits]})
            return
        out['ok'] += 1
        felt = rv.f[0]                     # Felt(u32)
        raw = felt.f[0]
        want = z3.SRem(z3.SignExt(16, val), z3.BitVecVal(Q, 32))
        want = z3.If(want < 0, want + Q, want)
        ok, m = ex.check(z3.Or(err, bvt(raw, 32) != want))
        if ok:
            bad.append({'kind': 'field decoder accepts the reserved pattern or decodes a wrong value', 'bits': [int(ex.eval_int(m, b)) for b in bits],
                        'got': ex.eval_int(m, raw)})
    ex.on_return = on_ret
    fn = P.by_key['SecretKey::deserialize_field_element']
    st = ex.start(fn, [temp_ref(Seq('bitvec', bits))], env={'N': 512})
    ex.explore(st)
    panics = [{'msg': p['msg'], 'site': p['site'], 'bits': [int(p['inputs']['b%d' % i]) for i in range(width)]} for p in ex.panics[:5]]
    asserts = sum(c[0] for c in ex.assert_sites.values())
    return {'tag': tag or 'deserialize_field_element width %d' % width, 'width': width, 'paths': ex.paths, 'queries': ex.nq, 'solver_s': ex.solver_s, 'steps': ex.steps,
            'ok': out['ok'], 'err': out['err'], 'bad': bad, 'panics': panics, 'obligations': asserts + out['checks'],
            'violable': len(bad) + len(panics), 'mir_hash': {'deserialize_field_element': fn.hash}}


def ov_deser_field(ex, st, fr, args, info):
    """summary used inside SecretKey::from_bytes: the contract checked by deser_field_scen; Felt::new is still the real MIR"""
    bv_ = ex.load(st, args[0].loc)
    bits = list(bv_.e)
    if len(bits) == 0:
        from ..mirsym.summaries import lib_panic
        lib_panic(ex, st, fr, 'index out of bounds: bits[0] on an empty field')
    err, val = field_contract([b.t if not b.conc else bool(b.t) for b in bits])
    v16 = lift(val, 'i16')
    newfn = ex.prog.by_key['Felt::new']
    felt = ex.call_value(st, FnItem('Felt::new'), [v16])
    if z3.is_false(err):
        return Ok(felt)
    return SymResult(err, felt, Agg('FalconDeserializationError', 'BadFieldElementEncoding', ()))


def fresh_poly(ex, n, name):
    es = []
    for i in range(n):
        v = ex.new_input('%s%d' % (name, i), 'u32')
        ex.assume(z3.ULT(v.t, Q))
        es.append(Agg('Felt', None, (v,)))
    return Agg('Polynomial', None, (Seq('vec', es),))


def sk_overrides(ex, N):
    """the algebraic tail of SecretKey::from_bytes is outside M: NTT pipeline -> arbitrary canonical polynomial (sound
    over-approximation; G does not reach to_bytes), from_b0 -> the b0 array with an opaque tree"""
    cnt = {'g': 0}

    def ov_fft(ex, st, fr, args, info):
        return Opaque('ntt', (ex.deref(st, args[0]),))

    def ov_hadamard(ex, st, fr, args, info):
        return Opaque('ntt', ())

    def ov_ifft(ex, st, fr, args, info):
        cnt['g'] += 1
        return fresh_poly(ex, N, 'G%d_' % cnt['g'])

    def ov_from_b0(ex, st, fr, args, info):
        return Agg('SecretKey', None, (args[0], Opaque('tree')))
    return {'SecretKey::deserialize_field_element': ov_deser_field,
            '<Polynomial<Felt> as FastFft>::fft': ov_fft, '<Polynomial<Felt> as FastFft>::ifft': ov_ifft,
            'Polynomial::hadamard_div': ov_hadamard, 'Polynomial::hadamard_mul': ov_hadamard,
            'SecretKey::from_b0': ov_from_b0}


# ---------------------------------------------------------------------------------------------- from_bytes -> to_bytes
def parse_scen(what, N, L, fixed=None, chunk=2, deadline_s=None, tag=''):
    """T::<N>::from_bytes(b), |b| = L, all bytes symbolic (fixed: {index: value}). Every path must end in Ok/Err without
    a violable assertion; on every Ok path to_bytes(x) must reproduce b bit for bit (queried per `chunk` bytes)."""
    t_end = time.time() + deadline_s if deadline_s else None
    holder = {}

    def build(sites):
        r = _parse_scen(what, N, L, fixed, chunk, t_end, tag, sites)
        holder['r'] = r
        return r['_ex'], r
    ex, r = run_with_defer(build)
    r.pop('_ex')
    r['deferred_obligations'] = ex.n_deferred
    r['obligations'] += ex.n_deferred
    r['queries'] += ex.nq_aux
    r['solver_s'] = ex.solver_s
    return r


def _parse_scen(what, N, L, fixed, chunk, t_end, tag, sites):
    P = prog()
    ex = new_exec(P)
    ex.defer = sites is not None
    ex.nodefer_sites = set(sites or ())
    if what == 'SecretKey':
        ex.over.update(sk_overrides(ex, N))
    ex.deadline = t_end
    xs = []
    for i in range(L):
        if fixed and i in fixed:
            xs.append(mkint(fixed[i], 'u8'))
        else:
            xs.append(ex.new_input('x%d' % i, 'u8'))
    out = {'ok': 0, 'err': {}, 'bad': [], 'checks': 0, 'samples': []}

    def inp(m):
        return [ex.eval_int(m, x) for x in xs]

    def on_ret(ex, st, rv):
        if isinstance(rv, SymResult):
            raise Unsupported('symbolic Result escaped from_bytes')
        if rv.variant == 'Err':
            e = rv.f[0]
            out['err'][e.variant] = out['err'].get(e.variant, 0) + 1
            return
        out['ok'] += 1
        obj = rv.f[0]
        if len(out['samples']) < 1:
            out['samples'].append({'accepted_input_prefix': inp(ex.model())[:24]})

        def on_tb(ex2, st2, rv2):
            by = list(rv2.e)
            out['checks'] += 1
            if len(by) != L:
                out['bad'].append({'kind': 'to_bytes length %d differs from accepted input length %d' % (len(by), L), 'input': inp(ex.model())})
                return
            for c0 in range(0, L, chunk):
                diffs = [bvt(a) != bvt(b) for a, b in zip(by[c0:c0 + chunk], xs[c0:c0 + chunk]) if not (a.conc and b.conc and a.t == b.t)]
                if not diffs:
                    continue
                out['checks'] += 1
                ok, m = ex.check_local(z3.Or(*diffs))
                if ok:
                    m = ex.check(z3.Or(*diffs))[1]      # full model for the report
                    i_ = inp(m); o_ = [ex.eval_int(m, b) for b in by]
                    d = [i for i in range(L) if i_[i] != o_[i]]
                    out['bad'].append({'kind': 'accepted input is not the canonical encoding of the decoded object', 'input': i_,
                                       'first_diff_byte': d[0] if d else None, 'reencoded_at_diff': [o_[i] for i in d[:4]], 'input_at_diff': [i_[i] for i in d[:4]]})
                    return
        n2 = nested(ex, what + '::to_bytes', [temp_ref(obj)], {'N': N}, on_tb)
        if n2 == 0:
            out['bad'].append({'kind': 'to_bytes of an accepted object never returns', 'input': inp(ex.model())})
    ex.on_return = on_ret
    fn = P.by_key[what + '::from_bytes']
    st = ex.start(fn, [temp_ref(Seq('arr', xs), (0, L))], env={'N': N})
    ex.explore(st)
    panics = []
    seen = set()
    for p in ex.panics:
        k = (p['msg'], p['site'])
        if k in seen: continue
        seen.add(k)
        i_ = p['inputs'] or {}
        panics.append({'msg': p['msg'], 'site': p['site'], 'fn': p['fn'], 'input': [i_.get('x%d' % i, xs[i].t if xs[i].conc else 0) for i in range(L)]})
    asserts = sum(c[0] for c in ex.assert_sites.values())
    return {'_ex': ex, 'tag': tag or '%s::<%d>::from_bytes L=%d' % (what, N, L), 'what': what, 'N': N, 'L': L, 'paths': ex.paths, 'queries': ex.nq, 'solver_s': ex.solver_s,
            'steps': ex.steps, 'ok': out['ok'], 'err': out['err'], 'bad': out['bad'][:5], 'panics': panics[:5],
            'obligations': asserts + out['checks'] + ex.paths, 'violable': len(out['bad']) + len(panics), 'samples': out['samples'],
            'symbolic_bytes': len([x for x in xs if not x.conc]),
            'mir_hash': {what + '::from_bytes': fn.hash, what + '::to_bytes': P.by_key[what + '::to_bytes'].hash}}

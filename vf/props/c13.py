"""C13 — floating-point FFT layer, claimed at a reduced level: the 1024-entry complex twiddle table (K, all entries by
recurrences), the generic butterflies' index/twiddle structure (S, identities over Z_q of the SAME generic code that
Complex64 instantiates), and the glue that hands table / conjugate table / 1/n to them (M). The 2^-30 accuracy bound is
not decided (DESIGN §4 C13)."""
import cmath, math, struct
from ..common import *
from .. import kani, replay, spec
from .c11 import run_kani, run_s
from . import c11_glue


def decode_table(rep, hname, r):
    """find the offending complex table entry natively against exp(i*pi*bitrev(j)/1024)"""
    T = c11_glue.expected_complex_table()
    for i in range(1024):
        re_, im_ = [float(x) for x in replay.call1(['complex_table', i]).split(',')]
        if abs(re_ - T[i].real) > 1e-15 or abs(im_ - T[i].imag) > 1e-15:
            rep.replayed += 1
            rep.violation('complex-table', 'COMPLEX_BITREVERSED_POWERS_1024[%d] = (%r, %r), expected exp(i*pi*%d/1024) = (%r, %r) (Kani: %s)'
                          % (i, re_, im_, int(format(i, '010b')[::-1], 2), T[i].real, T[i].imag, '; '.join(r.failed_checks[:2])),
                          {'replay_request': ['complex_table', i], 'got': [re_, im_], 'expected': [T[i].real, T[i].imag]})
            return
    rep.note_inconclusive('Kani harness %s failed (%s) but every table entry is within 1e-15 of the expected root natively' % (hname, r.failed_checks[:2]))


def check(tier):
    rep = Report('C13', tier)
    rep.functions = ['fast_fft::COMPLEX_BITREVERSED_POWERS_1024', '<Polynomial<Complex64> as FastFft>::{fft_inplace, ifft_inplace, split_fft, merge_fft}',
                     'CyclotomicFourier::{fft, ifft, split_fft, merge_fft} (generic code shared with Z_q)']
    rep.bounds = ['table: all 1024 entries (symbolic index): T[0]=1, T[1]=i, T[2j]^2 = T[j], T[2j+1] = i*T[2j] within 1e-15, first-quadrant rule',
                  'butterfly structure: identities merge(split(F)) = F, split(fft(a)) = (fft(a_even), fft(a_odd)), ifft(fft(a)) = a over Z_q^n, n <= 64 quick / 256 thorough',
                  'glue: every n in {2,...,1024}: tables compared entry by entry with exp(i*pi*bitrev(j)/1024) (conjugated where required), scaling = 1/n']
    rep.outside = ['the 2^-30 relative accuracy bound (rounding-error accumulation over 10 layers): NOT decided', 'n = 512, 1024 as fully symbolic transforms']
    rep.trusted = ['Kani/CBMC floating point', 'z3', 'python cmath for the expected roots (used to localise findings and in the glue comparison)']
    rep.assumptions = ['claimed at reduced level: realistic breakages (a bad table entry, a wrong conjugate, a swapped butterfly, a wrong scaling) are covered; accuracy is not']
    run_kani(rep, ['c13_complex_table'], decode_table)
    run_s(rep, tier)
    bad = c11_glue.run_complex(rep, tier)
    seen_n = set()
    bad = [b for b in bad if not (b[0] in seen_n or seen_n.add(b[0]))]       # one native replay per length
    bad.sort(key=lambda b: (0 if b[0] in (2, 1024) else 1, b[0]))
    for n, what in bad[:6]:
        # natively: round trip / product / split-merge errors of the real Polynomial<Complex64> transforms at that length
        dev, rel = replay.both(['complex_ops', n])
        rep.replayed += 1
        try:
            errs = [float(x) for x in dev.split(',')]
        except ValueError:
            errs = [float('inf')]
        # the property's own bound for a finding that could not be read structurally (an own implementation): relative error 2^-30, on
        # operands of ordinary size and on tiny ones (2^-70: an absolute error floor shows there)
        relbad = None
        if 'does not hand its work' in what or 'instead of exactly one generic' in what:
            for k in (0, 70):
                dr, rr = replay.both(['complex_ops', n, 'rel', k]); rep.replayed += 1
                for prof, out in (('dev', dr), ('release', rr)):
                    try:
                        re_ = [float(x) for x in out.split(',')]
                    except ValueError:
                        re_ = [float('inf')]
                    if out.startswith('PANIC') or max(re_) > 2.0 ** -30 or any(e != e for e in re_):
                        relbad = relbad or (k, prof, out)
        if relbad:
            rep.violation('complex-glue', 'Polynomial<Complex64> glue at n=%d: %s; natively, inputs scaled by 2^-%d, relative errors (round trip, product, merge(split), split(fft)) = %s [%s] exceed 2^-30'
                          % (n, what, relbad[0], relbad[2], relbad[1]), {'replay_request': ['complex_ops', n, 'rel', relbad[0]], 'got': relbad[2], 'what': what})
        elif dev.startswith('PANIC') or max(errs) > 1e-6 or any(e != e for e in errs):
            rep.violation('complex-glue', 'Polynomial<Complex64> glue at n=%d: %s; natively (round trip, product, merge(split), split(fft)) errors = %s' % (n, what, dev),
                          {'replay_request': ['complex_ops', n], 'dev': dev, 'release': rel, 'what': what})
        else:
            rep.note_inconclusive('complex glue finding at n=%d (%s) does not show natively: errors %s' % (n, what, dev))
    # plumbing validation: the real complex transforms on concrete vectors at every length (errors far below 1e-6)
    for n in [1 << k for k in range(1, 11)]:
        dev = replay.call1(['complex_ops', n])
        try:
            errs = [float(x) for x in dev.split(',')]
        except ValueError:
            errs = [float('inf')]
        if max(errs) < 1e-6:
            rep.replayed += 1
        else:
            rep.violation('complex-ops-native', 'complex transforms at n=%d: (round trip, product, merge(split), split(fft)) errors = %s' % (n, dev), {'replay_request': ['complex_ops', n], 'dev': dev})
    return rep.finish()

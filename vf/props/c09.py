"""C09 — integer Gaussian sampler: building blocks and control flow.
 K: base_sampler == #{i: u < RCDT_spec[i]} for all 2^72 inputs; ber_exp total on its documented domain.
 M: approx_exp == the specification's loop (term equality), ber_exp's comparison logic, sampler_z's loop body."""
import struct
from ..common import *
from .. import kani, replay, spec
from .c11 import run_kani

RCDT = [3024686241123004913666, 1564742784480091954050, 636254429462080897535, 199560484645026482916, 47667343854657281903, 8595902006365044063,
        1163297957344668388, 117656387352093658, 8867391802663976, 496969357462633, 20680885154299, 638331848991, 14602316184, 247426747, 3104126, 28824, 198, 1]
C_SPEC = [0x00000004741183A3, 0x00000036548CFC06, 0x0000024FDCBF140A, 0x0000171D939DE045, 0x0000D00CF58F6F84, 0x000680681CF796E3, 0x002D82D8305B0FEA,
          0x011111110E066FD0, 0x0555555555070F00, 0x155555555581FF00, 0x400000000002B400, 0x7FFFFFFFFFFF4800, 0x8000000000000000]
LN2 = 0.6931471805599453


def fhex(x):
    return struct.pack('>d', x).hex()


def ref_approx_exp(x, ccs):
    import math
    y = C_SPEC[0]
    z = int(math.floor(x * 2.0 ** 63))
    for c in C_SPEC[1:]:
        y = (c - ((z * y) >> 63)) & (2 ** 64 - 1)
    z = int(math.floor(2.0 ** 63 * ccs))
    return (z * y) >> 63


def ref_ber_exp(x, ccs, bs):
    """Algorithm 14 with the 7 supplied bytes; None when the outcome needs an 8th byte (all 7 bytes tie)"""
    import math
    s = int(math.floor(x / LN2))
    r = x - LN2 * s
    s = min(s, 63)
    z = ((2 * ref_approx_exp(r, ccs) - 1) >> s) & (2 ** 64 - 1)
    for k, i in enumerate(range(56, -1, -8)):
        if k >= len(bs):
            return None
        w = bs[k] - ((z >> i) & 0xff)
        if w != 0:
            return w < 0
    return False


def ref_sampler_z(mu, sigma, sigmin, stream):
    """Algorithm 15 on an explicit byte stream (9 + 1 + 7 bytes per trip); returns (z, bytes consumed) or None if the stream runs out"""
    import math
    isigma = 1.0 / sigma
    dss = 0.5 * isigma * isigma
    s = math.floor(mu); r = mu - s
    ccs = sigmin * isigma
    pos = 0
    while True:
        if pos + 17 > len(stream):
            return None
        u = int.from_bytes(bytes(stream[pos:pos + 9]), 'big'); pos += 9
        z0 = sum(1 for t in RCDT if u < t)
        b = stream[pos] & 1; pos += 1
        z = b + (2 * b - 1) * z0
        x = (z - r) * (z - r) * dss - (z0 * z0) * (1.0 / (2.0 * 1.8205 * 1.8205))
        bs = stream[pos:pos + 7]; pos += 7
        acc = ref_ber_exp(x, ccs, bs)
        if acc is None:
            acc = False
        if acc:
            return z + int(s), pos


def sampler_z_battery(rep, what):
    """native sampler_z against the reference on pseudo-random streams (used only to confirm a solver finding)"""
    import random
    rnd = random.Random(20240917)
    cases = []
    for k in range(60):
        mu = rnd.uniform(-300, 300) if k % 3 else float(rnd.randint(-50, 50))
        sigmin = rnd.choice([1.2778336969128337, 1.298280334344292])
        sigma = sigmin if k % 5 == 0 else rnd.uniform(sigmin, 1.8205)
        cases.append((mu, sigma, sigmin, [rnd.randrange(256) for _ in range(17 * 12)]))
    # the tail of the base sampler: z0 = 18 (nine zero bytes), 17, 16, ... with either sign and all-zero / all-ones BerExp bytes, followed by
    # ordinary trips - the rare draws a table-driven or unrolled rewrite gets wrong
    tail = []
    for mu, sigma, sigmin in ((0.0, 1.7, 1.2778336969128337), (-3.4, 1.5, 1.298280334344292), (100.6, 1.2778336969128337, 1.2778336969128337), (0.3, 1.8205, 1.298280334344292)):
        for head in ([0] * 9, [0] * 8 + [1], [0] * 7 + [2, 0], [0] * 6 + [0x30, 0, 0], [0] * 5 + [0x40, 0, 0, 0]):
            for sign in (0, 1):
                for ber in ([0] * 7, [255] * 7):
                    tail.append((mu, sigma, sigmin, head + [sign] + ber + [rnd.randrange(256) for _ in range(17 * 12)]))
    for mu, sigma, sigmin, stream in tail + cases:
        ref = ref_sampler_z(mu, sigma, sigmin, stream)
        if ref is None:
            continue
        dev, rel = replay.both(['sampler_z', fhex(mu), fhex(sigma), fhex(sigmin), bytes(stream).hex()])
        rep.replayed += 1
        want = '%d consumed=%d exhausted=false' % ref
        if dev != want or rel != want:
            rep.violation('sampler_z:differs-from-spec', '%s: sampler_z(mu=%r, sigma=%r, sigma_min=%r, stream=%s...) = %s / %s, SamplerZ of the specification gives %s'
                          % (what, mu, sigma, sigmin, bytes(stream[:20]).hex(), dev, rel, want),
                          {'replay_request': ['sampler_z', fhex(mu), fhex(sigma), fhex(sigmin), bytes(stream).hex()], 'expected': want, 'dev': dev, 'release': rel})
            return True
    return False


def decode_kani(rep, hname, r):
    tests, out = kani.playback_values(hname)
    reproduced = False
    for vals in tests:
        if hname == 'c09_base_sampler':
            b = vals[0] if len(vals[0]) == 9 else [v[0] for v in vals[:9]]
            u = int.from_bytes(bytes(b), 'big')
            want = str(sum(1 for t in RCDT if u < t))
            dev, rel = replay.both(['base_sampler', bytes(b).hex()])
            rep.replayed += 1
            if dev != want or rel != want:
                reproduced = True
                rep.violation('base_sampler:differs-from-spec', 'base_sampler(%s) = %s / %s, specification (RCDT) gives %s' % (bytes(b).hex(), dev, rel, want),
                              {'replay_request': ['base_sampler', bytes(b).hex()], 'expected': want, 'dev': dev, 'release': rel})
        else:
            # layout: x f64, ccs f64, bytes [u8;7]
            flat = [v for v in vals]
            try:
                x = struct.unpack('<d', bytes(flat[0]))[0]; ccs = struct.unpack('<d', bytes(flat[1]))[0]
                bs = flat[2] if len(flat[2]) == 7 else [v[0] for v in flat[2:9]]
            except Exception:
                continue
            dev, rel = replay.both(['ber_exp', fhex(x), fhex(ccs), bytes(bs).hex()])
            rep.replayed += 1
            if dev.startswith('PANIC') or rel.startswith('PANIC'):
                reproduced = True
                want = ref_ber_exp(x, ccs, bs)
                role = 'seven-byte-tie-reads-eighth-byte' if want is None and 'index out of bounds' in dev + rel else 'other'
                rep.violation('ber_exp:panic:' + role, 'ber_exp(x=%r, ccs=%r, bytes=%s) panics: dev=%r release=%r (all seven supplied bytes tie with the top bytes of z: %s)'
                              % (x, ccs, bytes(bs).hex(), dev, rel, want is None),
                              {'replay_request': ['ber_exp', fhex(x), fhex(ccs), bytes(bs).hex()], 'dev': dev, 'release': rel, 'x': x, 'ccs': ccs})
    if not reproduced:
        rep.note_inconclusive('harness %s FAILED (%s) but the counterexample did not reproduce natively (%s)' % (hname, r.failed_checks[:3], tests[:1]))


def check(tier):
    rep = Report('C09', tier)
    rep.functions = ['samplerz::base_sampler', 'samplerz::ber_exp (totality and comparison logic)', 'samplerz::approx_exp', 'samplerz::sampler_z (loop body, up to two trips)']
    rep.bounds = ['base_sampler: all 2^72 inputs (exhaustive by solver)', 'ber_exp totality: all x in [0, 1024), ccs in [1/2, 1], all 7-byte strings',
                  'approx_exp / ber_exp logic / sampler_z: see parts (engine M)']
    rep.outside = ['termination of sampler_z for EVERY byte stream (an adversarial stream can reject forever) and the distributional statement: not decidable by a solver',
                   'x >= 1024 in ber_exp (sampler_z never produces it for sigma >= sigma_min and |z - r| <= 19)']
    rep.trusted = ['Kani/CBMC floating-point model', 'RCDT and FACCT constants copied from the specification into /verif']
    rep.assumptions = ['documented domain of ber_exp: x >= 0, ccs in [sigma_min/sigma_max, 1] (here the superset [1/2, 1])']
    run_kani(rep, ['c09_base_sampler', 'c09_ber_exp_total'], decode_kani)
    # plumbing / oracle validation on boundary points: base_sampler at u = RCDT[i] - 1, RCDT[i], RCDT[i] + 1; approx_exp on fixed points
    for t in RCDT:
        for u in (t - 1, t, t + 1):
            if 0 <= u < 2 ** 72:
                want = str(sum(1 for x in RCDT if u < x)); got = replay.call1(['base_sampler', u.to_bytes(9, 'big').hex()])
                if got == want: rep.replayed += 1
                else: rep.violation('base_sampler:differs-from-spec', 'base_sampler(%d) = %s, specification gives %s' % (u, got, want), {'replay_request': ['base_sampler', u], 'got': got, 'expected': want})
    for x, ccs in ((0.0, 1.0), (0.3, 0.7), (0.2314993926072656, 0.8148006314615972), (0.6931471805599452, 0.5)):
        want = str(ref_approx_exp(x, ccs)); got = replay.call1(['approx_exp', fhex(x), fhex(ccs)])
        if got == want: rep.replayed += 1
        else: rep.violation('approx_exp:differs-from-spec', 'approx_exp(%r, %r) = %s, ApproxExp gives %s' % (x, ccs, got, want), {'replay_request': ['approx_exp', x, ccs], 'got': got, 'expected': want})
    try:
        from . import c09_m
        c09_m.run(rep, tier)
    except ImportError:
        rep.outside.append('engine M part of C09 not built in this revision')
    return rep.finish()

"""Worker-side scenario for C02 / C03(verify): the real MIR of verify::<N> and its closures at toy N, with the real
parameter set of Falcon-512 / Falcon-1024 (from_n overridden), hash_to_point = arbitrary canonical point, the NTT
pipeline replaced by exact negacyclic arithmetic mod q (its contract, C11), decompress real or arbitrary-result."""
import time
import z3
from ..mirsym import *
from ..mirsym.interp import simp
from .. import spec
from .c07_scen import prog, bits_of, zb

Q = spec.Q
W = 32        # all ring values < q^2 * n < 2^31 for n <= 4; norms < 2^30


def felt(t):
    return Agg('Felt', None, (lift(simp(t), 'u32'),))


def raw32(f):
    r = f.f[0]
    return z3.BitVecVal(r.t, 32) if r.conc else r.t


def poly_of(vals):
    return Agg('Polynomial', None, (Seq('vec', vals),))


def coeffs(ex, st, p):
    if isinstance(p, Ref): p = ex.deref(st, p)
    return list(p.f[0].e)


class Sym:
    """element of Z_q[X]/(X^n+1) as a list of 64-bit z3 terms in [0,q)"""

    def __init__(self, c): self.c = c


def ring_eval(node):
    k = node[0]
    if k == 'poly':
        return list(node[1])
    if k == 'mul':
        a, b = ring_eval(node[1]), ring_eval(node[2])
        n = len(a); out = []
        for kk in range(n):
            acc = z3.BitVecVal(0, W)
            for i in range(n):
                j = (kk - i) % n
                term = a[i] * b[j]
                acc = acc + term if i + j < n else acc + (z3.BitVecVal(Q, W) * z3.BitVecVal(Q, W) - term)
            out.append(z3.URem(acc, z3.BitVecVal(Q, W)))
        return out
    if k == 'sub':
        a, b = ring_eval(node[1]), ring_eval(node[2])
        return [z3.URem(x + z3.BitVecVal(Q, W) - y, z3.BitVecVal(Q, W)) for x, y in zip(a, b)]
    if k == 'add':
        a, b = ring_eval(node[1]), ring_eval(node[2])
        return [z3.URem(x + y, z3.BitVecVal(Q, W)) for x, y in zip(a, b)]
    raise Unsupported('ring node ' + k)


def tree_len(node):
    if node[0] == 'poly': return len(node[1])
    return tree_len(node[1])


def ntt_overrides(log):
    def ov_fft(ex, st, fr, args, info):
        cs = coeffs(ex, st, args[0])
        log['fft_lens'].append(len(cs))
        return Opaque('ntt', ('poly', [raw32(c) for c in cs]))

    def ov_hmul(ex, st, fr, args, info):
        a = ex.deref(st, args[0]) if isinstance(args[0], Ref) else args[0]
        b = ex.deref(st, args[1]) if isinstance(args[1], Ref) else args[1]
        return Opaque('ntt', ('mul', a.data, b.data))

    def ov_sub(ex, st, fr, args, info):
        a = ex.deref(st, args[0]) if isinstance(args[0], Ref) else args[0]
        b = ex.deref(st, args[1]) if isinstance(args[1], Ref) else args[1]
        return Opaque('ntt', ('sub', a.data, b.data))

    def ov_add(ex, st, fr, args, info):
        a = ex.deref(st, args[0]) if isinstance(args[0], Ref) else args[0]
        b = ex.deref(st, args[1]) if isinstance(args[1], Ref) else args[1]
        return Opaque('ntt', ('add', a.data, b.data))

    def ov_ifft(ex, st, fr, args, info):
        a = ex.deref(st, args[0]) if isinstance(args[0], Ref) else args[0]
        log['ifft'] += 1
        st.env['ifft_tree'] = a.data
        n_ = tree_len(a.data)
        s1 = []
        for i in range(n_):
            v = ex.new_input('s1_%d' % i, 'u32')
            ex.assume(z3.ULT(v.t, Q))
            s1.append(v)
        st.env['s1'] = s1
        return poly_of([Agg('Felt', None, (v,)) for v in s1])
    return {'<Polynomial<Felt> as FastFft>::fft': ov_fft, '<Polynomial<Felt> as FastFft>::ifft': ov_ifft,
            'Polynomial::hadamard_mul': ov_hmul, '<Polynomial<Felt> as Sub>::sub': ov_sub, '<Polynomial as Sub>::sub': ov_sub,
            '<Polynomial<Felt> as Add>::add': ov_add, '<Polynomial as Add>::add': ov_add}


def fit(t, w, signed_src=True):
    """the 2's-complement value of term t at width w (the operands compared here are far below 2^15 in magnitude, the abstract squares
    non-negative and below 2^31, so truncation / extension preserves them): lets the oracle follow code that squares or sums in
    another integer width than the pinned i64"""
    if t.size() == w:
        return t
    if t.size() > w:
        return z3.Extract(w - 1, 0, t)
    return z3.SignExt(w - t.size(), t) if signed_src else z3.ZeroExt(w - t.size(), t)


def compared_widths(ex, st):
    """bit widths of the integer comparisons (as the code wrote them) whose operand is built from the abstract squares: the
    accumulator that meets sig_bound"""
    sqn = set(str(sq) for (_, _, sq, _) in st.env.get('squares', ()))
    out = []
    for ty, t in ex.user.get('cmp_log', []):
        if hasattr(t, 'get_id') and sqn & set(ex.vars_of(t)):
            out.append(WIDTH[ty])
    return out


def rv_sum_ty(ex):
    ts = [t for t, _ in ex.user.get('sum_types', [])]
    return ts[-1] if ts else 'i64'


def same(a, b):
    return len(a) == len(b) and all(x.eq(y) for x, y in zip(a, b))


def wiring_problem(ex, tree, c, h, s2q):
    """None if tree == sub(poly(c), mul(poly(S), poly(h))) (mul operands in either order) with S_i provably equal to
    s2_i mod q in [0,q); else a description"""
    if tree is None: return 'ifft was never called'
    if tree[0] != 'sub': return 'top node is %s, expected sub' % tree[0]
    l, r = tree[1], tree[2]
    if l[0] != 'poly' or not same(l[1], c): return 'minuend is not fft(c)'
    if r[0] != 'mul': return 'subtrahend is %s, expected mul' % r[0]
    a, b = r[1], r[2]
    if a[0] != 'poly' or b[0] != 'poly': return 'product operands are not transforms of polynomials'
    if same(b[1], h): S = a[1]
    elif same(a[1], h): S = b[1]
    else: return 'public key h is not an operand of the product'
    if len(S) != len(s2q): return 'signature polynomial has %d coefficients, expected %d' % (len(S), len(s2q))
    for i, (x, y) in enumerate(zip(S, s2q)):
        ok, _ = ex.check_local(x != y)
        if ok: return 'coefficient %d handed to the NTT is not s2_%d mod q' % (i, i)
    return None


def verify_scen(n, variant, mode, L=None, deadline_s=None, tag=''):
    """mode = 'arbitrary' : decompress returns None or any vector with |s2_i| < 12160 (what C07 guarantees);
       mode = 'real'      : the real decompress on L fully symbolic signature bytes."""
    P = prog()
    ex = new_exec(P)
    ex.sq_abstract = True
    if deadline_s:
        ex.deadline = time.time() + deadline_s
    bound = spec.SIG_BOUND[variant]
    log = {'fft_lens': [], 'ifft': 0, 'h2p_args': [], 'decomp_args': []}
    cvals = [ex.new_input('c%d' % i, 'u32') for i in range(n)]
    hvals = [ex.new_input('h%d' % i, 'u32') for i in range(n)]
    for v in cvals + hvals:
        ex.assume(z3.ULT(v.t, Q))
    salt = [ex.new_input('r%d' % i, 'u8') for i in range(2)] + [mkint(0, 'u8')] * 38
    msg = [ex.new_input('m0', 'u8')]
    s2in = None
    if mode == 'arbitrary':
        s2in = [ex.new_input('s%d' % i, 'i16') for i in range(n)]
        for v in s2in:
            ex.assume(z3.And(v.t > -spec.COEFF_LIMIT, v.t < spec.COEFF_LIMIT))
        sbytes = [mkint(0, 'u8')] * 3
    else:
        sbytes = [ex.new_input('x%d' % i, 'u8') for i in range(L)]

    def ov_from_n(ex, st, fr, args, info):
        nv = ex.conc_int(st, args[0])
        if nv != n: raise Unsupported('from_n called with %d' % nv)
        return Agg('FalconVariant', 'Falcon%d' % variant, ())

    def ov_h2p(ex, st, fr, args, info):
        data = ex.slice_elems(st, args[0]); nn = ex.conc_int(st, args[1])
        log['h2p_args'].append((tuple(data), nn))
        return poly_of([Agg('Felt', None, (v,)) for v in cvals])

    def ov_decompress(ex, st, fr, args, info):
        data = ex.slice_elems(st, args[0]); nn = ex.conc_int(st, args[1])
        log['decomp_args'].append((tuple(data), nn))
        isnone = ex.user.setdefault('isnone', ex.new_input('decode_fails', 'bool'))
        if ex.conc_bool(st, isnone):
            return NONE
        return Some(Seq('vec', s2in))
    ex.over.update(ntt_overrides(log))
    ex.over['FalconVariant::from_n'] = ov_from_n
    ex.over['hash_to_point'] = ov_h2p
    if mode == 'arbitrary':
        ex.over['decompress'] = ov_decompress
    out = {'ret': 0, 'bad': [], 'checks': 0, 'samples': [], 'wit': {}}
    allin = cvals + hvals + (s2in or []) + [b for b in sbytes if not b.conc]

    def on_ret(ex, st, rv):
        out['ret'] += 1
        # wiring: hash_to_point must have been given salt || msg and n; decompress sig.s and n
        out['checks'] += 1
        if len(log['h2p_args']) < 1 or log['h2p_args'][-1][1] != n or len(log['h2p_args'][-1][0]) != 41 or \
                any(a is not b for a, b in zip(log['h2p_args'][-1][0], salt + msg)):
            out['bad'].append({'kind': 'hash_to_point was not called on salt || message with n', 'model': None})
        # the vector the decoder produced on this path (None-paths: verify must return false)
        dec = st.env.get('decoded')
        rvt = (z3.BoolVal(bool(rv.t)) if rv.conc else rv.t)
        if mode == 'arbitrary':
            isnone = ex.user.get('isnone')
            failed = ex.conc_bool(st, isnone) if isinstance(isnone, V) else False
            s2 = s2in
        else:
            failed = st.env.get('decode_failed', False)
            s2 = st.env.get('s2')
        out['checks'] += 1
        if failed:
            ok, m = ex.check(rvt)
            if ok:
                out['bad'].append({'kind': 'verify returns true although the signature does not decode', 'model': mi(ex, m)})
            return
        # wiring of the transform-domain pipeline: ifft( fft(c) - fft(Felt::new o s2) .* fft(h) )
        out['checks'] += 1
        tree = st.env.get('ifft_tree')
        s2t = [z3.BitVecVal(v.t, 16) if v.conc else v.t for v in s2]
        s2q = [z3.URem(z3.SignExt(16, t) + z3.BitVecVal(Q * 4, W), z3.BitVecVal(Q, W)) for t in s2t]
        why = wiring_problem(ex, tree, [v.t for v in cvals], [v.t for v in hvals], s2q)
        if why:
            mm = ex.model()
            out['bad'].append({'kind': 'wiring: ' + why, 'model': mi(ex, mm), 's2': [ex.eval_int(mm, v) for v in s2], 'wiring': True})
            return
        # Algorithm 16 with s1 := the vector verify received from the pipeline. c is an arbitrary canonical vector and
        # c -> c - s2*h is a bijection of Z_q^n, so s1 ranges over all of Z_q^n: it is a free canonical vector here.
        # Squares are abstracted (Exec.abstract_square): each x*x in the code is a fresh sq with the pairing recorded.
        # The oracle looks up the sq paired with the value the specification squares; a missing pairing means the code
        # squares something else (wrong representative, wrong vector).
        s1 = [v.t for v in st.env['s1']]
        want = [('s1_%d' % i, z3.SignExt(32, z3.If(z3.UGT(x, z3.BitVecVal(Q // 2, W)), x - z3.BitVecVal(Q, W), x))) for i, x in enumerate(s1)]
        want += [('s2_%d' % i, z3.SignExt(48, t)) for i, t in enumerate(s2t)]
        total = z3.BitVecVal(0, 64)
        used = set()
        for name, expect in want:
            hit = None
            for j, (kid, x, sq, k) in enumerate(st.env.get('squares', ())):
                if j in used: continue
                ok, _ = ex.check_local(x != fit(expect, x.size()))
                out['checks'] += 1
                if not ok:
                    hit = j; break
            if hit is None:
                # exhibit a value for which no squared operand of the code equals the specification's
                conds = [x != fit(expect, x.size()) for j, (kid, x, sq, k) in enumerate(st.env.get('squares', ())) if j not in used]
                okm, mm = ex.check(*conds) if conds else (True, ex.model())
                mm = mm or ex.model()
                out['bad'].append({'kind': 'the norm does not include the square of %s (as the specification defines it)' % name, 'model': mi(ex, mm), 'wiring': True,
                                   's2': [ex.eval_int(mm, v) for v in s2], 's1': [spec.centred(mm.eval(x, model_completion=True).as_long()) for x in s1]})
                return
            used.add(hit)
            total = total + fit(st.env.get('squares', ())[hit][2], 64, signed_src=False)
        norm = total
        # production sizes: the accumulators must hold n_prod * (largest term). Terms are the abstracted squares (<= 2^(2k)).
        out['checks'] += 1
        kmax = max([k for (_, _, _, k) in st.env.get('squares', ())] or [0])
        widths = [WIDTH[t] for t, _ in ex.user.get('sum_types', [])] + [WIDTH[rv_sum_ty(ex)]] + compared_widths(ex, st)
        need = 1 + 10 + 2 * kmax + 1            # sign + log2(1024) + bits of one square + one more for the final s1+s2 addition
        if min(widths) < need and not out.get('width_reported'):
            out['width_reported'] = True
            out['bad'].append({'kind': 'accumulator too narrow for the production degrees: %d-bit sums, %d bits needed for 1024 terms of up to 2^%d' % (min(widths), need, 2 * kmax),
                               'model': None, 'wiring': True, 'width': True, 'width_bits': min(widths), 's1': None, 's2': None})
        accept = total <= z3.BitVecVal(bound, 64)
        ok, m = ex.check_local(rvt != accept)
        if ok:
            nv = m.eval(norm, model_completion=True).as_long()
            out['bad'].append({'kind': 'verify disagrees with Algorithm 16 (abstract squares)', 'model': mi(ex, m), 'norm': nv, 'bound': bound,
                               'verify_returned': z3.is_true(m.eval(rvt, model_completion=True)), 'wiring': False, 'abstract': True})
        # reachability witnesses at the boundary (kept per scenario)
        for name, val in (('bound-1', bound - 1), ('bound', bound), ('bound+1', bound + 1)):
            if name not in out['wit']:
                okw, mw = ex.check_local(norm == z3.BitVecVal(val, 64))
                out['checks'] += 0
                if okw:
                    out['wit'][name] = {'verify_returned': z3.is_true(mw.eval(rvt, model_completion=True)), 'model': mi(ex, mw)}
        if len(out['samples']) < 1:
            mm = ex.model()
            out['samples'].append({'inputs': mi(ex, mm), 'norm': mm.eval(norm, model_completion=True).as_long(), 'verify': z3.is_true(mm.eval(rvt, model_completion=True))})

    def mi(ex, m):
        return {k: v for k, v in ex.model_inputs(m).items()}
    ex.on_return = on_ret
    if mode == 'real':
        # observe the real decoder's result through a wrapper around the real MIR
        real = P.by_key['decompress']

        def ov_dec_real(ex, st, fr, args, info):
            raise Unsupported('not used')
        # instead of wrapping, read verify's own local after the call: hook on closure#0 (Felt::new mapping) is fragile;
        # simplest: run verify normally and recover s2 from its frame at return time via a tiny override of collect_vec? no:
        # we record at the call boundary by overriding `decompress` with a summary that runs the real MIR synchronously is
        # impossible (it forks). So: explore decompress first, then verify with the decoded vector fixed per path.
        pass
    fn = P.by_key['falcon::verify']
    sig = Agg('Signature', None, (Seq('arr', salt), Seq('vec', sbytes)))
    pk = Agg('PublicKey', None, (poly_of([Agg('Felt', None, (v,)) for v in hvals]),))

    def start_verify(ex):
        st = ex.start(fn, [temp_ref(Seq('arr', msg), (0, 1)), temp_ref(sig), temp_ref(pk)], env={'N': n})
        return st
    if mode == 'arbitrary':
        ex.explore(start_verify(ex))
    else:
        # two-stage: (1) the real decompress on the symbolic bytes, (2) for each of its paths, verify with `decompress`
        # summarised by exactly that path's result (same path condition, same terms)
        dfn = P.by_key['decompress']
        cnt = {'dec_paths': 0}

        def on_dec(ex1, st1, rv1):
            cnt['dec_paths'] += 1
            res = rv1

            def ov_fixed(ex2, st2, fr2, args2, info2):
                data = ex2.slice_elems(st2, args2[0]); nn = ex2.conc_int(st2, args2[1])
                if nn != n or len(data) != L or any(a is not b for a, b in zip(data, sbytes)):
                    out['bad'].append({'kind': 'verify does not pass sig.s and n to decompress', 'model': None})
                if res.variant == 'None':
                    st2.env['decode_failed'] = True
                    return NONE
                st2.env['decode_failed'] = False
                st2.env['s2'] = list(res.f[0].e)
                return res
            ex.over['decompress'] = ov_fixed
            saved = ex.on_return
            ex.on_return = on_ret
            try:
                ex.explore(start_verify(ex))
            finally:
                ex.on_return = saved
        ex.on_return = on_dec
        st0 = ex.start(dfn, [temp_ref(Seq('arr', sbytes), (0, L)), mkint(n, 'usize')])
        ex.explore(st0)
        out['dec_paths'] = cnt['dec_paths']
    panics = []
    seen = set()
    for p in ex.panics:
        k = (p['msg'], p['site'])
        if k in seen: continue
        seen.add(k)
        panics.append({'msg': p['msg'], 'site': p['site'], 'fn': p['fn'], 'model': p['inputs']})
    asserts = sum(c[0] for c in ex.assert_sites.values())
    return {'tag': tag or 'verify::<%d> with Falcon-%d parameters, decompress %s%s' % (n, variant, mode, (' L=%d' % L) if L else ''), 'n': n, 'variant': variant, 'mode': mode, 'L': L,
            'paths': ex.paths, 'queries': ex.nq, 'solver_s': ex.solver_s, 'steps': ex.steps, 'returned': out['ret'], 'bad': out['bad'][:6], 'panics': panics[:6],
            'witnesses': out['wit'], 'obligations': asserts + out['checks'], 'violable': len(out['bad']) + len(panics), 'samples': out['samples'],
            'mir_hash': {'falcon::verify': fn.hash}}


def params_scen():
    """FalconVariant::parameters() of both variants, evaluated on the real MIR (concrete), for comparison with the specification's table"""
    P = prog()
    ex = new_exec(P)
    out = {}
    fn = P.by_key['FalconVariant::parameters']
    for variant in (512, 1024):
        got = []
        ex.on_return = lambda e, s_, rv: got.append(rv)
        st = ex.start(fn, [temp_ref(Agg('FalconVariant', 'Falcon%d' % variant, ()))])
        ex.explore(st)
        r = got[0]
        out[variant] = {'n': r.f[0].t, 'sigma': r.f[1].t, 'sigmin': r.f[2].t, 'sig_bound': r.f[3].t, 'sig_bytelen': r.f[4].t}
    return {'params': out, 'mir_hash': {'FalconVariant::parameters': fn.hash}, 'paths': ex.paths, 'steps': ex.steps, 'queries': 0, 'solver_s': 0.0}

"""C03 — decoders and verify are total: untrusted bytes never cause a panic. Assembled from the panic-freedom
obligations (every MIR `assert` terminator with overflow checks ON, every summarised panicking library call) of:
decompress (C07's exploration), the three from_bytes parsers at the accepted and at wrong lengths with all bytes symbolic,
and verify::<N> at toy N with the real parameter sets."""
import random
from ..common import *
from .. import replay, spec
from ..mirsym import load_program
from ..mirsym.runner import run_jobs
from . import c02, c06, c07


def sk_bytes(N, f, g, F):
    w = 6 if N == 512 else 5
    bits = ''
    for vec, ww in ((f, w), (g, w), (F, 8)):
        v = list(vec) + [0] * (N - len(vec))
        bits += ''.join(format(x & ((1 << ww) - 1), '0%db' % ww) for x in v)
    return bytes([0x50 + N.bit_length() - 1]) + int(bits, 2).to_bytes(len(bits) // 8, 'big')


def confirm_sk_tail(rep, r, p):
    """a panic obligation in the Z_q tail of SecretKey::from_bytes (hadamard_div / hadamard_mul on arbitrary canonical vectors): exhibit it
    natively on well-formed secret keys whose f has zero NTT coefficients (all-zero body; f = 1 + 5y + 7y^2 - 6y^3 with y = X^(n/4))"""
    for N in (512, 1024):
        y = N // 4
        fs = [0] * N; fs[0] = 1; fs[y] = 5; fs[2 * y] = 7; fs[3 * y] = -6
        for f, g, F in (([0], [0], [0]), (fs, [1], [1]), ([0], [1, 2], [3])):
            enc = sk_bytes(N, f, g, F)
            dev, rel = replay.both(['parse', 'SecretKey', N, enc.hex()])
            rep.replayed += 1
            if dev.startswith('PANIC') or rel.startswith('PANIC'):
                rep.violation('SecretKey::from_bytes:panic', 'SecretKey::<%d>::from_bytes panics on a well-formed %d-byte key whose f has a zero NTT coefficient: %s (obligation: %s in %s)'
                              % (N, len(enc), dev if dev.startswith('PANIC') else rel, p['msg'], r['tag']), {'replay_request': ['parse', 'SecretKey', N, enc.hex()[:80] + '...'], 'dev': dev[:100], 'release': rel[:100]})
                return True
    rep.note_inconclusive('violable obligation in %s (%s) not reproduced natively through SecretKey::from_bytes' % (r['tag'], p['msg']))
    return False


def check(tier):
    rep = Report('C03', tier)
    rep.functions = ['polynomial::hash_to_point (panic obligations; called by verify on salt || msg)', 'encoding::decompress', 'falcon::{PublicKey,SecretKey,Signature}::<N>::from_bytes', 'SecretKey::deserialize_field_element', 'falcon::verify::<N> + closures', 'Felt::{new,balanced_value}']
    rep.bounds = ['decompress: as C07 (fully symbolic small buffers, structured long runs, production-size tails in the thorough tier)',
                  'from_bytes: every byte symbolic at the accepted length and at lengths 0, 1, 2, accepted +-1, the other variant\'s; N in {512, 1024}',
                  'verify: toy N in {1,2,4}, all c, h, s2 (|s2_i| < 12160) and decode failure; real decompress composed for small (N, L); sums of 2N squares below 2^63 is checked for N <= 4 and by the arithmetic fact 1024*(6144^2 + 12159^2) < 2^63']
    rep.bounds.append('hash_to_point: n <= 8, fully symbolic XOF stream with up to 6 rejected chunks (C14 quick scenarios), panic obligations only')
    rep.outside = ['hash_to_point at n = 512 / 1024 as loop trip counts (buffer sizes that depend on n are exercised only at n <= 8 and by the native replay)', 'SecretKey::from_bytes: the Z_q tail is covered by contract (Polynomial::hadamard_div / hadamard_mul total on all canonical vectors of length <= 3, real MIR; the NTT itself by C11); the floating-point tail (from_b0 = FFT + ffLDL in f64) is outside M',
                   'stack / heap exhaustion; panics inside dependencies beyond what the summaries model (index out of range, unwrap, try_into length)']
    rep.trusted = ['mirsym library summaries', 'z3']
    rep.assumptions = ['overflow checks ON (the dev/test profile): every arithmetic assert terminator in the MIR is an obligation']
    load_program(fresh=True)
    rnd = random.Random(seed() * 7919 + 17)
    had = [(c06.MOD, 'hadamard_scen', dict(n=n, which=w, mul_contract=True)) for n, w in ((1, 'hadamard_div'), (2, 'hadamard_div'), (3, 'hadamard_div'), (3, 'hadamard_mul'))]
    jobs = c07.dec_jobs(tier, rnd) + c06.parse_jobs(tier) + [j for j in c02.jobs_for(tier)] + had
    results = run_jobs(jobs, workers=NCPU, order_seed=0)
    # arithmetic fact for the production sizes
    assert 1024 * (6144 ** 2 + 12159 ** 2) < 2 ** 63
    rep.oblige(1)
    npan = 0
    sig_accept = {}; narrow = []
    for job, r in zip(jobs, results):
        if r.get('error'):
            rep.oblige(1, ok=False); rep.note_inconclusive('%s %s: %s' % (job[1], job[2].get('tag') or job[2], r['error'])); continue
        rep.extra.setdefault('mir_hashes', {}).update(r.get('mir_hash', {}))
        rep.states += r['paths']; rep.transitions += r['steps']; rep.queries += r['queries']; rep.solver_s += r['solver_s']
        pan = r.get('panics', [])
        # only the panic obligations count here; functional findings belong to C02/C06/C07
        rep.oblige(max(r['obligations'] - r['violable'], 0)); rep.oblige(len(pan), ok=False)
        rep.parts.setdefault('scenarios', []).append({'scenario': r.get('tag'), 'paths': r['paths'], 'panic_obligations_violable': len(pan), 'wall_s': round(r['wall_s'], 1)})
        if job[1] == 'parse_scen' and r.get('what') == 'Signature':
            for smp in r.get('samples', []):
                if smp.get('accepted_input') is not None:
                    sig_accept.setdefault(r['N'], []).append((r['L'], smp['accepted_input']))
        if job[1] == 'verify_scen':
            for b in r.get('bad', []):
                if b.get('width'):
                    narrow.append((r.get('tag'), b['kind']))
        for p in pan:
            npan += 1
            if job[1] == 'decompress_scen':
                c07.confirm_decompress_panic(rep, p, 'C03')
            elif job[1] == 'parse_scen':
                c06.confirm_parse_bad(rep, r, {'input': p['input'], 'kind': 'panic ' + p['msg']})
            elif job[1] == 'deser_field_scen':
                c06.confirm_field_bad(rep, r, {'bits': p['bits']})
            elif job[1] == 'hadamard_scen':
                confirm_sk_tail(rep, r, p)
            else:
                if not c02.differential(rep, r['variant'], c02.battery(r['variant']), 'verify:panic', 'panic obligation violable in verify: %s at %s' % (p['msg'], p['site']), need_panic=True):
                    rep.note_inconclusive('violable assertion in verify not reproduced natively: %s at %s' % (p['msg'], p['site']))
        if job[1] == 'decompress_scen':
            c07.validate_samples(rep, job, r)
        if job[1] == 'parse_scen' and r['L'] == c06.LEN[r['what']][r['N']]:
            for smp in r.get('samples', [])[:1]:
                if smp.get('accepted_input') is not None:
                    got = replay.call1(['parse', r['what'], r['N'], bytes(smp['accepted_input']).hex()])
                    if got.startswith('Ok '): rep.replayed += 1
                    elif got.startswith('PANIC'):
                        rep.replayed += 1
                        rep.violation('%s::from_bytes:panic' % r['what'], '%s::<%d>::from_bytes panics on a well-formed %d-byte input (a sample of the accepting path): %s'
                                      % (r['what'], r['N'], r['L'], got), {'replay_request': ['parse', r['what'], r['N'], bytes(smp['accepted_input']).hex()[:80] + '...'], 'dev': got})
                    else: rep.note_inconclusive('translator validation failed (%s): the real code answers %s' % (r['tag'], got[:60]))
        if job[1] == 'decompress_scen':
            for s in r.get('samples', [])[:1]:
                rep.sample({'scenario': r.get('tag'), 'discharged': 'all %d assert/library-panic obligations on %d paths' % (r['obligations'], r['paths'])})
    if narrow:
        heavy_signature_replay(rep, narrow, sig_accept)
    felt_mul_panic_lemma(rep)
    hash_to_point_totality(rep, tier)
    # verify never panics on a decode failure or success natively either: a differential battery (cheap, replay only)
    return rep.finish()


def hash_to_point_totality(rep, tier):
    """verify's first step is hash_to_point(salt || msg, N) on attacker-chosen bytes: its panic obligations (index, arithmetic, library
    panics) are part of this property. The real MIR is run over the fully symbolic XOF stream of C14's quick scenarios (n <= 8, every
    accept/reject interleaving inside the bound); only the panic obligations count here (the values belong to C14). A violable
    obligation is replayed through the real verify::<512/1024> on messages whose SHAKE-256 stream is extreme in the way the toy
    counterexample is (many / long runs of rejected chunks); a panic that shows only at toy n is reported as inconclusive, because
    verify never calls hash_to_point with those n."""
    import hashlib
    import numpy as np
    from . import c14
    jobs = c14.jobs_for('quick')
    results = run_jobs(jobs, workers=NCPU, order_seed=0)
    pans = []
    for job, r in zip(jobs, results):
        if r.get('error'):
            rep.oblige(1, ok=False); rep.note_inconclusive('hash_to_point %s: %s' % (job[2], r['error'])); continue
        rep.extra.setdefault('mir_hashes', {}).update(r.get('mir_hash', {}))
        rep.states += r['paths']; rep.transitions += r['steps']; rep.queries += r['queries']; rep.solver_s += r['solver_s']
        pan = r.get('panics', [])
        rep.oblige(max(r['obligations'] - r['violable'], 0)); rep.oblige(len(pan), ok=False)
        rep.parts.setdefault('scenarios', []).append({'scenario': 'C03/' + str(r.get('tag')), 'paths': r['paths'], 'panic_obligations_violable': len(pan), 'wall_s': round(r['wall_s'], 1)})
        pans.extend(pan)
    rep.parts['hash_to_point_totality'] = {'scenarios': len(jobs), 'panic_obligations_violable': len(pans)}
    if not pans:
        return
    p = pans[0]
    toy = None
    msg = c14.find_message(p['stream'], p['n']) if p.get('stream') is not None else None
    if msg is not None:
        dev, rel = replay.both(['hash_to_point', p['n'], msg.hex()]); rep.replayed += 1
        toy = (msg.hex(), dev[:80], rel[:80])
    # production degrees, through verify: messages whose stream has the most rejected chunks early / the longest rejected runs
    salt = bytes(40)
    cand = []
    for k in range(1500000):
        m = b'verif-c03-%d' % k
        d = hashlib.shake_256(salt + m).digest(1152)
        c = int((np.frombuffer(d, dtype='>u2') >= 61445).sum())
        if c >= 64:
            cand.append((c, m))
            if len(cand) >= 12: break
    cand.sort(reverse=True)
    for c, m in cand[:8]:
        for N in (512, 1024):
            sig = spec.sig_bytes(salt, [0] * N, N)
            pk = spec.pk_bytes([1] + [0] * (N - 1), N)
            req = ['verify', N, m.hex(), bytes(sig).hex(), bytes(pk).hex()]
            dev, rel = replay.both(req); rep.replayed += 1
            if str(dev).startswith('PANIC') or str(rel).startswith('PANIC'):
                rep.violation('verify:hash_to_point:panic', 'verify::<%d> panics inside hash_to_point on message %r with an all-zero salt (%d of the first 576 stream chunks are rejected): %s; obligation found at n=%d: %s at %s'
                              % (N, m, c, dev if str(dev).startswith('PANIC') else rel, p['n'], p['msg'], p.get('site')),
                              {'replay_request': ['verify', N, m.hex(), bytes(sig).hex()[:100] + '...', bytes(pk).hex()[:60] + '...'], 'dev': str(dev)[:160], 'release': str(rel)[:160], 'toy': toy})
                return
    rep.note_inconclusive('a panic obligation of hash_to_point is violable at n=%d (%s at %s; native at that n: %s) but verify::<512/1024> did not panic on %d heavy-rejection messages'
                          % (p['n'], p['msg'], p.get('site'), toy, len(cand[:8])))


def heavy_signature_replay(rep, narrow, sig_accept):
    """verify sums squares in an integer type that cannot hold 1024 terms of 12159^2 (found on the toy degrees by the width obligation).
    Whether that is a reachable overflow panic depends on how heavy a decodable signature can be, i.e. on every length
    Signature::from_bytes accepts for each N (taken from the parse scenarios' accepting paths): the heaviest vector that fits each such
    length is encoded and sent through the real from_bytes + verify."""
    from .. import spec
    shown = False
    for N in (512, 1024):
        cands = sig_accept.get(N, [])
        for L, sample in sorted(cands, key=lambda x: -x[0]):
            room = 8 * (L - 41)
            k = max(0, min(N, (room - 9 * N) // 94))
            for mag in (12159, 6144):
                v = [(mag if i % 2 else -mag) for i in range(k)] + [0] * (N - k)
                body = spec.compress(v, L - 41)
                if body is None:
                    continue
                sig = bytes(sample[:41]) + body
                pk = spec.pk_bytes([1] + [0] * (N - 1), N)
                req = ['verify', N, b'verif'.hex(), sig.hex(), pk.hex()]
                dev, rel = replay.both(req); rep.replayed += 1
                if str(dev).startswith('PANIC') or str(rel).startswith('PANIC'):
                    rep.oblige(1, ok=False)
                    rep.violation('verify:panic', 'verify::<%d> panics on a %d-byte signature that Signature::<%d>::from_bytes accepts (%d coefficients of magnitude %d): %s (%s)'
                                  % (N, L, N, k, mag, dev if str(dev).startswith('PANIC') else rel, narrow[0][1]),
                                  {'replay_request': ['verify', N, 'verif', sig.hex()[:90] + '...', pk.hex()[:40] + '...'], 'signature_length': L, 'dev': str(dev)[:120], 'release': str(rel)[:120]})
                    shown = True; break
            if shown: break
        if shown: break
    if not shown:
        # no decodable signature is heavy enough: the narrow type is a C02 matter (wrong decision), not a panic
        rep.parts['narrow_accumulator'] = '%s; no accepted signature length carries enough weight to overflow it (lengths tried: %s)' % (narrow[0][1], {n: sorted(set(l for l, _ in c)) for n, c in sig_accept.items()})


def felt_mul_panic_lemma(rep):
    """verify and SecretKey::from_bytes multiply field elements pointwise (hadamard_mul / hadamard_div): <Felt as Mul>::mul and
    Felt::multiply must not panic for any pair of canonical operands. Real MIR with the product as a cut point, decided by cvc5's
    integer encoding (a division-free reduction is out of reach of bit-blasting); a violable obligation is turned into an operand
    pair and replayed through verify itself (s2 = x, h = y constant polynomials: every NTT slot multiplies x by y)."""
    from . import c12_m
    from .. import spec
    Qv = 12289
    for which in ('mul', 'multiply'):
        try:
            r = c12_m.mul_scen(which)
        except Exception as e:
            rep.parts['felt_%s_panic_lemma' % which] = 'not evaluated: %s: %s' % (type(e).__name__, str(e)[:120]); continue
        rep.states += r.get('paths', 0); rep.transitions += r.get('steps', 0); rep.queries += r.get('queries', 0); rep.solver_s += r.get('solver_s', 0.0)
        pans = r.get('panics', [])
        rep.sample({'engine': 'M', 'target': r.get('key'), 'panic_obligations_violable': len(pans), 'paths': r.get('paths')})
        if r.get('verdict') in ('absent',):
            continue
        if not pans:
            rep.oblige(max(r.get('paths', 1), 1)); continue
        rep.oblige(1, ok=False)
        shown = False
        for pnc in pans:
            pval = (pnc.get('model') or {}).get('prod_1')
            pairs = [(x, pval // x) for x in range(1, Qv) if pval and pval % x == 0 and pval // x < Qv][:4] if pval else []
            mm_ = pnc.get('model') or {}
            if pval and mm_.get('a') and mm_.get('b') and mm_['a'] * mm_['b'] == pval:
                pairs = [(mm_['a'], mm_['b'])] + pairs          # the solver's own operands (model with the product tied to them)
            for x, y in pairs:
                for N in (512, 1024):
                    for a_, b_ in ((x, y), (y, x)):
                        s2 = [a_ if a_ <= 6144 else a_ - Qv] + [0] * (N - 1)
                        try:
                            sig = spec.sig_bytes(bytes(40), s2, N)
                        except Exception:
                            continue
                        if sig is None:
                            continue
                        pk = spec.pk_bytes([b_] + [0] * (N - 1), N)
                        req = ['verify', N, b'verif'.hex(), sig.hex(), pk.hex()]
                        dev, rel = replay.both(req); rep.replayed += 1
                        if str(dev).startswith('PANIC') or str(rel).startswith('PANIC'):
                            rep.violation('verify:panic', 'verify::<%d> panics on a well-formed signature (s2 = %d) and public key (h = %d): %s (M obligation in %s: %s)'
                                          % (N, s2[0], b_, dev if str(dev).startswith('PANIC') else rel, r.get('key'), pnc['msg']),
                                          {'replay_request': ['verify', N, 'verif', sig.hex()[:60] + '...', pk.hex()[:60] + '...'], 'dev': str(dev)[:100], 'release': str(rel)[:100]})
                            shown = True; break
                    if shown: break
                if shown: break
            if shown: break
        if not shown:
            rep.note_inconclusive('a panic obligation in %s is violable for the solver (%s) but no operand pair reproduces it through verify natively' % (r.get('key'), pans[0]['msg']))

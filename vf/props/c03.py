"""C03 — decoders and verify are total: untrusted bytes never cause a panic. Assembled from the panic-freedom
obligations (every MIR `assert` terminator with overflow checks ON, every summarised panicking library call) of:
decompress (C07's exploration), the three from_bytes parsers at the accepted and at wrong lengths with all bytes symbolic,
and verify::<N> at toy N with the real parameter sets."""
import random
from ..common import *
from .. import replay, spec
from ..mirsym import load_program
from ..mirsym.runner import run_jobs
from . import c02, c06, c07


def sk_bytes(N, f, g, F):
    w = 6 if N == 512 else 5
    bits = ''
    for vec, ww in ((f, w), (g, w), (F, 8)):
        v = list(vec) + [0] * (N - len(vec))
        bits += ''.join(format(x & ((1 << ww) - 1), '0%db' % ww) for x in v)
    return bytes([0x50 + N.bit_length() - 1]) + int(bits, 2).to_bytes(len(bits) // 8, 'big')


def confirm_sk_tail(rep, r, p):
    """a panic obligation in the Z_q tail of SecretKey::from_bytes (hadamard_div / hadamard_mul on arbitrary canonical vectors): exhibit it
    natively on well-formed secret keys whose f has zero NTT coefficients (all-zero body; f = 1 + 5y + 7y^2 - 6y^3 with y = X^(n/4))"""
    for N in (512, 1024):
        y = N // 4
        fs = [0] * N; fs[0] = 1; fs[y] = 5; fs[2 * y] = 7; fs[3 * y] = -6
        for f, g, F in (([0], [0], [0]), (fs, [1], [1]), ([0], [1, 2], [3])):
            enc = sk_bytes(N, f, g, F)
            dev, rel = replay.both(['parse', 'SecretKey', N, enc.hex()])
            rep.replayed += 1
            if dev.startswith('PANIC') or rel.startswith('PANIC'):
                rep.violation('SecretKey::from_bytes:panic', 'SecretKey::<%d>::from_bytes panics on a well-formed %d-byte key whose f has a zero NTT coefficient: %s (obligation: %s in %s)'
                              % (N, len(enc), dev if dev.startswith('PANIC') else rel, p['msg'], r['tag']), {'replay_request': ['parse', 'SecretKey', N, enc.hex()[:80] + '...'], 'dev': dev[:100], 'release': rel[:100]})
                return True
    rep.note_inconclusive('violable obligation in %s (%s) not reproduced natively through SecretKey::from_bytes' % (r['tag'], p['msg']))
    return False


def check(tier):
    rep = Report('C03', tier)
    rep.functions = ['encoding::decompress', 'falcon::{PublicKey,SecretKey,Signature}::<N>::from_bytes', 'SecretKey::deserialize_field_element', 'falcon::verify::<N> + closures', 'Felt::{new,balanced_value}']
    rep.bounds = ['decompress: as C07 (fully symbolic small buffers, structured long runs, production-size tails in the thorough tier)',
                  'from_bytes: every byte symbolic at the accepted length and at lengths 0, 1, 2, accepted +-1, the other variant\'s; N in {512, 1024}',
                  'verify: toy N in {1,2,4}, all c, h, s2 (|s2_i| < 12160) and decode failure; real decompress composed for small (N, L); sums of 2N squares below 2^63 is checked for N <= 4 and by the arithmetic fact 1024*(6144^2 + 12159^2) < 2^63']
    rep.outside = ['SecretKey::from_bytes: the Z_q tail is covered by contract (Polynomial::hadamard_div / hadamard_mul total on all canonical vectors of length <= 3, real MIR; the NTT itself by C11); the floating-point tail (from_b0 = FFT + ffLDL in f64) is outside M',
                   'stack / heap exhaustion; panics inside dependencies beyond what the summaries model (index out of range, unwrap, try_into length)']
    rep.trusted = ['mirsym library summaries', 'z3']
    rep.assumptions = ['overflow checks ON (the dev/test profile): every arithmetic assert terminator in the MIR is an obligation']
    load_program(fresh=True)
    rnd = random.Random(seed() * 7919 + 17)
    had = [(c06.MOD, 'hadamard_scen', dict(n=n, which=w)) for n, w in ((1, 'hadamard_div'), (2, 'hadamard_div'), (3, 'hadamard_div'), (3, 'hadamard_mul'))]
    jobs = c07.dec_jobs(tier, rnd) + c06.parse_jobs(tier) + [j for j in c02.jobs_for(tier)] + had
    results = run_jobs(jobs, workers=NCPU, order_seed=0)
    # arithmetic fact for the production sizes
    assert 1024 * (6144 ** 2 + 12159 ** 2) < 2 ** 63
    rep.oblige(1)
    npan = 0
    for job, r in zip(jobs, results):
        if r.get('error'):
            rep.oblige(1, ok=False); rep.note_inconclusive('%s %s: %s' % (job[1], job[2].get('tag') or job[2], r['error'])); continue
        rep.extra.setdefault('mir_hashes', {}).update(r.get('mir_hash', {}))
        rep.states += r['paths']; rep.transitions += r['steps']; rep.queries += r['queries']; rep.solver_s += r['solver_s']
        pan = r.get('panics', [])
        # only the panic obligations count here; functional findings belong to C02/C06/C07
        rep.oblige(max(r['obligations'] - r['violable'], 0)); rep.oblige(len(pan), ok=False)
        rep.parts.setdefault('scenarios', []).append({'scenario': r.get('tag'), 'paths': r['paths'], 'panic_obligations_violable': len(pan), 'wall_s': round(r['wall_s'], 1)})
        for p in pan:
            npan += 1
            if job[1] == 'decompress_scen':
                c07.confirm_decompress_panic(rep, p, 'C03')
            elif job[1] == 'parse_scen':
                c06.confirm_parse_bad(rep, r, {'input': p['input'], 'kind': 'panic ' + p['msg']})
            elif job[1] == 'deser_field_scen':
                c06.confirm_field_bad(rep, r, {'bits': p['bits']})
            elif job[1] == 'hadamard_scen':
                confirm_sk_tail(rep, r, p)
            else:
                if not c02.differential(rep, r['variant'], c02.battery(r['variant']), 'verify:panic', 'panic obligation violable in verify: %s at %s' % (p['msg'], p['site']), need_panic=True):
                    rep.note_inconclusive('violable assertion in verify not reproduced natively: %s at %s' % (p['msg'], p['site']))
        if job[1] == 'decompress_scen':
            c07.validate_samples(rep, job, r)
        if job[1] == 'parse_scen' and r['L'] == c06.LEN[r['what']][r['N']]:
            for smp in r.get('samples', [])[:1]:
                if smp.get('accepted_input') is not None:
                    got = replay.call1(['parse', r['what'], r['N'], bytes(smp['accepted_input']).hex()])
                    if got.startswith('Ok '): rep.replayed += 1
                    elif got.startswith('PANIC'):
                        rep.replayed += 1
                        rep.violation('%s::from_bytes:panic' % r['what'], '%s::<%d>::from_bytes panics on a well-formed %d-byte input (a sample of the accepting path): %s'
                                      % (r['what'], r['N'], r['L'], got), {'replay_request': ['parse', r['what'], r['N'], bytes(smp['accepted_input']).hex()[:80] + '...'], 'dev': got})
                    else: rep.note_inconclusive('translator validation failed (%s): the real code answers %s' % (r['tag'], got[:60]))
        if job[1] == 'decompress_scen':
            for s in r.get('samples', [])[:1]:
                rep.sample({'scenario': r.get('tag'), 'discharged': 'all %d assert/library-panic obligations on %d paths' % (r['obligations'], r['paths'])})
    # verify never panics on a decode failure or success natively either: a differential battery (cheap, replay only)
    return rep.finish()

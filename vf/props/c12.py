"""C12 — arithmetic modulo q is exact and canonical. Engine K (Kani/CBMC on the compiled Felt operators),
each counterexample replayed natively through R before it is reported."""
import re
from ..common import *
from .. import kani, replay

Q = 12289
I16 = ('i16', 2, True)
U32 = ('u32', 4, False)
USZ = ('usize', 8, False)


def _dec(vals, spec):
    return [kani.le_int(v, s[2]) for v, s in zip(vals, spec)]


# harness -> (kani::any() layout, function(values) -> list of (replay request, oracle reply, finding key))
def _binop(op, pyop):
    def f(v):
        a, b = v
        return [(['felt_' + op, a, b], str(pyop(a, b) % Q), 'felt_' + op)]
    return f


def _new(v):
    return [(['felt_new', v[0]], str(v[0] % Q), 'Felt::new:' + ('i16-min-overflow' if v[0] == -32768 else 'negative-multiple-of-q' if v[0] < 0 and v[0] % Q == 0 else 'other'))]


HARNESSES = {
    'c12_add': ([U32, U32], _binop('add', lambda a, b: a + b)),
    'c12_sub_neg': ([U32, U32], lambda v: _binop('sub', lambda a, b: a - b)(v) + [(['felt_neg', v[0]], str(-v[0] % Q), 'felt_neg')]),
    'c12_mul': ([U32, U32], _binop('mul', lambda a, b: a * b)),
    'c12_new_all_i16': ([I16], _new),
    'c12_balanced_value': ([U32], lambda v: [(['felt_balanced', v[0]], str(v[0] if v[0] <= 6144 else v[0] - Q), 'felt_balanced')]),
    'c12_from_usize_small': ([USZ], lambda v: [(['felt_from_usize', v[0]], str(v[0] % Q), 'felt_from_usize')]),
}
for k in range(13):
    HARNESSES['c12_inv_s%02d' % k] = ([U32], lambda v: [(['felt_inv', v[0]], str(pow(v[0], Q - 2, Q)), 'felt_inv')])

# vacuity: covers that must be reachable (all of them, except slice 12 which holds the single value 12288)
EXPECT_UNCOVERED = {}


def replay_failure(rep, hname, r):
    layout, mk = HARNESSES[hname]
    tests, out = kani.playback_values(hname)
    if not tests:
        rep.note_inconclusive('harness %s FAILED (%s) but concrete playback produced no values' % (hname, r.failed_checks))
        return
    reproduced = False
    for vals in tests:
        v = _dec(vals, layout)
        for req, oracle, key in mk(v):
            dev, rel = replay.both(req)
            rep.replayed += 1
            bad_dev = dev != oracle
            bad_rel = rel != oracle
            if bad_dev or bad_rel:
                reproduced = True
                rep.violation(key, '%s: real code returns dev=%r release=%r, specification says %r (Kani: %s)'
                              % (' '.join(map(str, req)), dev, rel, oracle, '; '.join(r.failed_checks)),
                              {'replay_request': req, 'expected': oracle, 'dev': dev, 'release': rel, 'harness': hname})
    if not reproduced:
        rep.note_inconclusive('harness %s FAILED (%s) but the counterexample did not reproduce natively: %s' % (hname, r.failed_checks, tests))


def check(tier):
    rep = Report('C12', tier)
    rep.functions = ['falcon_field::Felt::{new,value,balanced_value,multiply}', '<Felt as Add/Sub/Neg/Mul/AddAssign/SubAssign/MulAssign>',
                     '<Felt as Inverse>::inverse_or_zero', '<Felt as From<usize>>::from']
    rep.bounds = ['none beyond the types: all a,b in [0,q) (u32 raw representatives), all v in i16; inversion split in 13 slices a>>10 = k',
                  'From<usize>: v <= i16::MAX (the conversion narrows through i16 by construction)']
    rep.outside = ['batch lengths above the stated bound (the loop body is uniform, but that is an argument, not a query)']
    rep.trusted = ['Kani 0.68 / CBMC 6.11 / cadical', 'rustc codegen as modelled by Kani (dev profile, overflow checks on)']
    rep.assumptions = ['operands are canonical residues (the invariant every constructor establishes, itself checked by c12_new_all_i16)']
    rep.extra['exhaustive'] = True
    names = sorted(HARNESSES)
    no_verdict_mul = None
    fast = [n for n in names if not n.startswith('c12_inv')]
    slow = [n for n in names if n.startswith('c12_inv')]
    res, out, secs, rc = kani.run_group(fast + slow, timeout=1500, jobs=NCPU)
    rep.parts['kani_wall_s'] = round(secs, 1)
    for n in names:
        r = res[n.split('::')[-1]]
        rep.states += max(r.checks_total, 1)
        rep.transitions += max(r.vccs, r.checks_total)
        rep.queries += 1
        rep.solver_s += r.time_s
        rep.sample({'harness': n, 'status': r.status, 'checks': r.checks_total, 'covers': '%d/%d' % (r.covers_sat, r.covers_total), 'solver_s': r.time_s})
        if r.status == 'SUCCESSFUL':
            unc = r.covers_total - r.covers_sat
            if unc != EXPECT_UNCOVERED.get(n, 0):
                rep.oblige(1, ok=False)
                rep.note_inconclusive('vacuity: harness %s has %d unreachable cover(s)' % (n, unc))
            else:
                rep.oblige(max(r.checks_total, 1))
        elif r.status == 'FAILED':
            rep.oblige(max(r.checks_total, 1), ok=False)
            if r.unwind_failure:
                rep.note_inconclusive('harness %s: unwinding assertion failed (bound too small)' % n)
            else:
                replay_failure(rep, n, r)
        elif n.split('::')[-1] == 'c12_mul':
            no_verdict_mul = r.raw[-300:]            # decided below by the M part, if that can
        else:
            rep.oblige(1, ok=False)
            rep.note_inconclusive('harness %s: no verdict (timeout/crash): %s' % (n, r.raw[-300:]))
    mul_m_part(rep, no_verdict_mul)
    batch_inversion(rep, tier)
    oracle_validation(rep)
    return rep.finish()


def mul_m_part(rep, kani_no_verdict):
    """multiplication decided a second way (engine M, product cut point, cvc5 integer encoding + z3): see c12_m. It is the deciding
    check when CBMC gives no verdict on c12_mul (division-free reductions do not finish under bit-blasting) and a cross-check otherwise."""
    from . import c12_m
    from ..mirsym import load_program
    rep.functions.append('engine M: <Felt as Mul>::mul, Felt::multiply, <Felt as MulAssign>::mul_assign (product cut point)')
    rep.trusted.append('cvc5 1.0 (--solve-bv-as-int=sum) / z3 on the M queries; mirsym summaries')
    undecided = []
    try:
        load_program(fresh=True)
    except Exception as e:
        undecided.append('MIR not available: %s' % str(e)[:120])
    for which, key in (c12_m.TARGETS if not undecided else []):
        try:
            r = c12_m.mul_scen(which)
        except Exception as e:
            r = {'which': which, 'verdict': 'unknown', 'note': '%s: %s' % (type(e).__name__, str(e)[:160])}
        rep.states += r.get('paths', 0); rep.transitions += r.get('steps', 0); rep.queries += r.get('queries', 0); rep.solver_s += r.get('solver_s', 0.0)
        rep.extra.setdefault('mir_hashes', {}).update(r.get('mir_hash', {}))
        rep.sample({'engine': 'M', 'target': key, 'verdict': r.get('verdict'), 'oracle': r.get('oracle'), 'decided_by': r.get('decided_by'), 'paths': r.get('paths'),
                    'excluded_non_products': r.get('excluded_nonproducts'), 'note': r.get('note')})
        v = r.get('verdict')
        for pnc in r.get('panics', []):
            mm = pnc.get('model') or {}
            pval = mm.get('prod_1')
            pair = next(((x, pval // x) for x in range(1, Q) if pval % x == 0 and pval // x < Q), None) if pval else ((0, 0) if pval == 0 else None)
            if pval and mm.get('a') and mm.get('b') and mm['a'] * mm['b'] == pval:
                pair = (mm['a'], mm['b'])
            if pair is None:
                undecided.append('%s: a panic obligation (%s) is violable only for products that no two residues form, or without a model' % (key, pnc['msg'])); continue
            req = ['felt_' + which, pair[0], pair[1]]
            dev, rel = replay.both(req); rep.replayed += 1
            if 'PANIC' in str(dev) or 'PANIC' in str(rel):
                rep.oblige(1, ok=False)
                rep.violation('felt_' + which + ':panic', '%s panics: dev=%r release=%r (M: %s)' % (' '.join(map(str, req)), dev, rel, pnc['msg']), {'replay_request': req, 'dev': dev, 'release': rel})
            else:
                undecided.append('%s: solver-found panic (%s) did not reproduce natively on %s' % (key, pnc['msg'], req))
        if v == 'unsat':
            rep.oblige(max(r.get('checks', 1), 1))
        elif v == 'sat':
            a, b = r['cex']['a'], r['cex']['b']
            req = ['felt_' + which, a, b]; want = str(a * b % Q)
            dev, rel = replay.both(req); rep.replayed += 1
            rep.oblige(1, ok=False)
            if dev != want or rel != want:
                rep.violation('felt_' + which, '%s: real code returns dev=%r release=%r, specification says %r (M/cvc5 counterexample)' % (' '.join(map(str, req)), dev, rel, want),
                              {'replay_request': req, 'expected': want, 'dev': dev, 'release': rel})
            else:
                undecided.append('%s: solver counterexample a=%d b=%d did not reproduce natively' % (key, a, b))
        elif v == 'absent':
            pass
        else:
            undecided.append('%s: %s' % (key, r.get('note') or v))
    if kani_no_verdict is not None:
        if undecided:
            rep.oblige(1, ok=False)
            rep.note_inconclusive('harness c12_mul: no verdict from CBMC (timeout/crash) and the M part does not decide it either: %s' % '; '.join(undecided)[:400])
        else:
            rep.parts['c12_mul'] = 'no verdict from CBMC within the cap; decided by the M part (product cut point, cvc5 integer encoding)'
    elif undecided:
        # CBMC decided multiplication; the M cross-check could not run or found something that does not reproduce: recorded, not a verdict
        rep.parts['c12_mul_m_part'] = 'not conclusive (CBMC verdict stands): ' + '; '.join(undecided)[:400]


def batch_override(rep):
    """The S proof above is about the generic default method. If Felt's `impl Inverse` supplies its own batch_inverse_or_zero, that
    proof says nothing about what runs: the override is real field arithmetic (symbolic-by-symbolic products modulo q, beyond the
    solvers here), so it is exercised natively on structured batches (lengths around every power of two up to 1024, zeros at the
    ends, in the middle, at block boundaries); a deviation is a violation, none leaves the property undecided for this tree."""
    try:
        from ..mirsym import load_program
        from .c07_scen import prog
        load_program(fresh=False)
        P = prog()
    except Exception as e:
        rep.parts['batch_override_probe'] = 'MIR not available: %s' % str(e)[:100]
        return
    keys = [k for k in P.by_key if re.search(r'<Felt as (\w+::)*Inverse>::batch_inverse_or_zero$', k)]
    rep.parts['felt_batch_override'] = bool(keys)
    if not keys:
        return
    import random
    rnd = random.Random(12289)
    lens = sorted(set([0, 1, 2, 3, 5, 8, 16, 31, 32, 33, 63, 64, 65, 66, 100, 127, 128, 129, 191, 192, 193, 255, 256, 257, 511, 512, 513, 1023, 1024]))
    reqs = []; want = []
    for L in lens:
        base = [rnd.randrange(1, Q) for _ in range(L)]
        pats = [set()]
        if L:
            pats += [{0}, {L - 1}, {L // 2}, set(range(0, L, 2)), set(range(L))]
            pats += [{i} for i in (63, 64, 65, 127, 128) if i < L]
            pats += [{rnd.randrange(L)} for _ in range(2)]
        for zs in pats:
            v = [0 if i in zs else x for i, x in enumerate(base)]
            reqs.append(['felt_batch_inv', ','.join(map(str, v)) if v else '-'])
            want.append(','.join(str(pow(x, Q - 2, Q)) for x in v))
    found = False
    for prof in ('dev', 'release'):
        got = replay.call(reqs, prof)
        for rq, g, w in zip(reqs, got, want):
            rep.replayed += 1
            if g != w and not found:
                found = True
                vals = rq[1].split(',') if rq[1] != '-' else []
                bad = [i for i, (a, b) in enumerate(zip(g.split(','), w.split(','))) if a != b] if g and not g.startswith('PANIC') else []
                rep.oblige(1, ok=False)
                rep.violation('batch_inverse_or_zero:override', 'Felt overrides batch_inverse_or_zero (%s); on a batch of %d elements with zeros at %s it returns wrong entries at %s%s [%s]'
                              % (keys[0], len(vals), [i for i, x in enumerate(vals) if x == '0'][:8], bad[:8], (' (%s)' % g[:80]) if not bad else '', prof),
                              {'replay_request': rq, 'expected': w, 'got': g, 'profile': prof})
    if not found:
        rep.oblige(1, ok=False)
        rep.note_inconclusive('Felt supplies its own batch_inverse_or_zero (%s): the solver proof covers the generic method only; %d native structured batches (lengths up to 1024) show no deviation, which is not a decision' % (keys[0], len(reqs)))


def oracle_validation(rep):
    """the python oracles used when replaying counterexamples agree with the real code on boundary operands (plumbing check)"""
    pts = [0, 1, 2, 6143, 6144, 6145, 12287, 12288]
    reqs = []; want = []
    for a in pts:
        for b in (0, 1, 6144, 12288):
            reqs += [['felt_add', a, b], ['felt_sub', a, b], ['felt_mul', a, b]]; want += [str((a + b) % Q), str((a - b) % Q), str(a * b % Q)]
        reqs += [['felt_neg', a], ['felt_inv', a], ['felt_balanced', a]]; want += [str(-a % Q), str(pow(a, Q - 2, Q)), str(a if a <= 6144 else a - Q)]
    for v in (-32768, -24578, -12290, -12289, -12288, -1, 0, 1, 12288, 12289, 24578, 32767):
        reqs.append(['felt_new', v]); want.append(str(v % Q))
    for prof in ('dev', 'release'):
        got = replay.call(reqs, prof)
        for rq, g, w in zip(reqs, got, want):
            if g == w:
                rep.replayed += 1
            else:
                rep.violation('native:' + rq[0], '%s = %s [%s], specification says %s' % (' '.join(map(str, rq)), g, prof, w), {'replay_request': rq, 'got': g, 'expected': w, 'profile': prof})


def batch_inversion(rep, tier):
    """Inverse::batch_inverse_or_zero (generic code) run on the log-domain symbolic type of engine S: every non-zero operand is
    g^e with e symbolic in Z_{q-1}; z3 decides that every output is the inverse (exponent -e) resp. zero, for every zero pattern."""
    from .. import symfield as S
    from concurrent.futures import ThreadPoolExecutor
    maxlen = 4 if tier == 'quick' else 7
    jobs = [(n, mask) for n in range(0, maxlen + 1) for mask in range(1 << n)]

    def work(j):
        n, mask = j
        path = S.emit('batch', 'felt', n, mask, name='batch_%d_%d.smt2' % (n, mask))
        v, dt, model = S.solve(path, timeout=120)
        if v == 'sat':
            v2, dt2, model = S.solve(path, timeout=120, want_model=True)
        return n, mask, v, dt, model
    replay.build('dev')
    with ThreadPoolExecutor(max_workers=NCPU) as ex:
        res = list(ex.map(work, jobs))
    bad = 0
    for n, mask, v, dt, model in res:
        rep.queries += 1; rep.solver_s += dt; rep.states += 1; rep.transitions += max(n, 1)
        if v == 'unsat':
            rep.oblige(1); continue
        rep.oblige(1, ok=False)
        if v == 'sat':
            # replay: pick the generator 11 of Z_q^*, map exponents to residues
            g = 11
            vals = [0 if (mask >> i) & 1 else pow(g, (model or {}).get('e%d' % i, 1), Q) for i in range(n)]
            want = ','.join(str(pow(x, Q - 2, Q)) for x in vals)
            dev, rel = replay.both(['felt_batch_inv', ','.join(map(str, vals)) if vals else '-'])
            rep.replayed += 1
            if dev != want or rel != want:
                rep.violation('batch_inverse_or_zero', 'batch_inverse_or_zero(%s) = %s / %s, expected %s' % (vals, dev, rel, want),
                              {'replay_request': ['felt_batch_inv', vals], 'expected': want, 'dev': dev, 'release': rel})
            else:
                rep.note_inconclusive('engine S (log domain) counterexample for batch inversion (len %d, zero mask %d) did not reproduce natively' % (n, mask))
        else:
            rep.note_inconclusive('engine S batch inversion len %d mask %d: %s' % (n, mask, v))
    batch_override(rep)
    rep.functions.append('Inverse::batch_inverse_or_zero (generic code, engine S log-domain instantiation)')
    rep.bounds.append('batch inversion: every batch length 0..%d, every zero pattern, all non-zero operands (exponents symbolic in Z_12288)' % maxlen)
    rep.trusted.append('F_q^* is cyclic of order q-1 (log-domain encoding of multiplication / inversion), and Felt multiplication / inversion are exact (harnesses above)')
    rep.sample({'engine': 'S', 'query': 'batch_inverse_or_zero on [g^e0, 0, g^e2]: some output is not the inverse', 'verdict': [v for n, m, v, _, _ in res if (n, m) == (3, 2)]})

"""C12 — arithmetic modulo q is exact and canonical. Engine K (Kani/CBMC on the compiled Felt operators),
each counterexample replayed natively through R before it is reported."""
from ..common import *
from .. import kani, replay

Q = 12289
I16 = ('i16', 2, True)
U32 = ('u32', 4, False)
USZ = ('usize', 8, False)


def _dec(vals, spec):
    return [kani.le_int(v, s[2]) for v, s in zip(vals, spec)]


# harness -> (kani::any() layout, function(values) -> list of (replay request, oracle reply, finding key))
def _binop(op, pyop):
    def f(v):
        a, b = v
        return [(['felt_' + op, a, b], str(pyop(a, b) % Q), 'felt_' + op)]
    return f


def _new(v):
    return [(['felt_new', v[0]], str(v[0] % Q), 'Felt::new:' + ('i16-min-overflow' if v[0] == -32768 else 'negative-multiple-of-q' if v[0] < 0 and v[0] % Q == 0 else 'other'))]


HARNESSES = {
    'c12_add': ([U32, U32], _binop('add', lambda a, b: a + b)),
    'c12_sub_neg': ([U32, U32], lambda v: _binop('sub', lambda a, b: a - b)(v) + [(['felt_neg', v[0]], str(-v[0] % Q), 'felt_neg')]),
    'c12_mul': ([U32, U32], _binop('mul', lambda a, b: a * b)),
    'c12_new_all_i16': ([I16], _new),
    'c12_balanced_value': ([U32], lambda v: [(['felt_balanced', v[0]], str(v[0] if v[0] <= 6144 else v[0] - Q), 'felt_balanced')]),
    'c12_from_usize_small': ([USZ], lambda v: [(['felt_from_usize', v[0]], str(v[0] % Q), 'felt_from_usize')]),
}
for k in range(13):
    HARNESSES['c12_inv_s%02d' % k] = ([U32], lambda v: [(['felt_inv', v[0]], str(pow(v[0], Q - 2, Q)), 'felt_inv')])

# vacuity: covers that must be reachable (all of them, except slice 12 which holds the single value 12288)
EXPECT_UNCOVERED = {}


def replay_failure(rep, hname, r):
    layout, mk = HARNESSES[hname]
    tests, out = kani.playback_values(hname)
    if not tests:
        rep.note_inconclusive('harness %s FAILED (%s) but concrete playback produced no values' % (hname, r.failed_checks))
        return
    reproduced = False
    for vals in tests:
        v = _dec(vals, layout)
        for req, oracle, key in mk(v):
            dev, rel = replay.both(req)
            rep.replayed += 1
            bad_dev = dev != oracle
            bad_rel = rel != oracle
            if bad_dev or bad_rel:
                reproduced = True
                rep.violation(key, '%s: real code returns dev=%r release=%r, specification says %r (Kani: %s)'
                              % (' '.join(map(str, req)), dev, rel, oracle, '; '.join(r.failed_checks)),
                              {'replay_request': req, 'expected': oracle, 'dev': dev, 'release': rel, 'harness': hname})
    if not reproduced:
        rep.note_inconclusive('harness %s FAILED (%s) but the counterexample did not reproduce natively: %s' % (hname, r.failed_checks, tests))


def check(tier):
    rep = Report('C12', tier)
    rep.functions = ['falcon_field::Felt::{new,value,balanced_value,multiply}', '<Felt as Add/Sub/Neg/Mul/AddAssign/SubAssign/MulAssign>',
                     '<Felt as Inverse>::inverse_or_zero', '<Felt as From<usize>>::from']
    rep.bounds = ['none beyond the types: all a,b in [0,q) (u32 raw representatives), all v in i16; inversion split in 13 slices a>>10 = k',
                  'From<usize>: v <= i16::MAX (the conversion narrows through i16 by construction)']
    rep.outside = ['batch lengths above the stated bound (the loop body is uniform, but that is an argument, not a query)']
    rep.trusted = ['Kani 0.68 / CBMC 6.11 / cadical', 'rustc codegen as modelled by Kani (dev profile, overflow checks on)']
    rep.assumptions = ['operands are canonical residues (the invariant every constructor establishes, itself checked by c12_new_all_i16)']
    rep.extra['exhaustive'] = True
    names = sorted(HARNESSES)
    fast = [n for n in names if not n.startswith('c12_inv')]
    slow = [n for n in names if n.startswith('c12_inv')]
    res, out, secs, rc = kani.run_group(fast + slow, timeout=1500, jobs=NCPU)
    rep.parts['kani_wall_s'] = round(secs, 1)
    for n in names:
        r = res[n.split('::')[-1]]
        rep.states += max(r.checks_total, 1)
        rep.transitions += max(r.vccs, r.checks_total)
        rep.queries += 1
        rep.solver_s += r.time_s
        rep.sample({'harness': n, 'status': r.status, 'checks': r.checks_total, 'covers': '%d/%d' % (r.covers_sat, r.covers_total), 'solver_s': r.time_s})
        if r.status == 'SUCCESSFUL':
            unc = r.covers_total - r.covers_sat
            if unc != EXPECT_UNCOVERED.get(n, 0):
                rep.oblige(1, ok=False)
                rep.note_inconclusive('vacuity: harness %s has %d unreachable cover(s)' % (n, unc))
            else:
                rep.oblige(max(r.checks_total, 1))
        elif r.status == 'FAILED':
            rep.oblige(max(r.checks_total, 1), ok=False)
            if r.unwind_failure:
                rep.note_inconclusive('harness %s: unwinding assertion failed (bound too small)' % n)
            else:
                replay_failure(rep, n, r)
        else:
            rep.oblige(1, ok=False)
            rep.note_inconclusive('harness %s: no verdict (timeout/crash): %s' % (n, r.raw[-300:]))
    batch_inversion(rep, tier)
    oracle_validation(rep)
    return rep.finish()


def oracle_validation(rep):
    """the python oracles used when replaying counterexamples agree with the real code on boundary operands (plumbing check)"""
    pts = [0, 1, 2, 6143, 6144, 6145, 12287, 12288]
    reqs = []; want = []
    for a in pts:
        for b in (0, 1, 6144, 12288):
            reqs += [['felt_add', a, b], ['felt_sub', a, b], ['felt_mul', a, b]]; want += [str((a + b) % Q), str((a - b) % Q), str(a * b % Q)]
        reqs += [['felt_neg', a], ['felt_inv', a], ['felt_balanced', a]]; want += [str(-a % Q), str(pow(a, Q - 2, Q)), str(a if a <= 6144 else a - Q)]
    for v in (-32768, -24578, -12290, -12289, -12288, -1, 0, 1, 12288, 12289, 24578, 32767):
        reqs.append(['felt_new', v]); want.append(str(v % Q))
    for prof in ('dev', 'release'):
        got = replay.call(reqs, prof)
        for rq, g, w in zip(reqs, got, want):
            if g == w:
                rep.replayed += 1
            else:
                rep.violation('native:' + rq[0], '%s = %s [%s], specification says %s' % (' '.join(map(str, rq)), g, prof, w), {'replay_request': rq, 'got': g, 'expected': w, 'profile': prof})


def batch_inversion(rep, tier):
    """Inverse::batch_inverse_or_zero (generic code) run on the log-domain symbolic type of engine S: every non-zero operand is
    g^e with e symbolic in Z_{q-1}; z3 decides that every output is the inverse (exponent -e) resp. zero, for every zero pattern."""
    from .. import symfield as S
    from concurrent.futures import ThreadPoolExecutor
    maxlen = 4 if tier == 'quick' else 7
    jobs = [(n, mask) for n in range(0, maxlen + 1) for mask in range(1 << n)]

    def work(j):
        n, mask = j
        path = S.emit('batch', 'felt', n, mask, name='batch_%d_%d.smt2' % (n, mask))
        v, dt, model = S.solve(path, timeout=120)
        if v == 'sat':
            v2, dt2, model = S.solve(path, timeout=120, want_model=True)
        return n, mask, v, dt, model
    replay.build('dev')
    with ThreadPoolExecutor(max_workers=NCPU) as ex:
        res = list(ex.map(work, jobs))
    bad = 0
    for n, mask, v, dt, model in res:
        rep.queries += 1; rep.solver_s += dt; rep.states += 1; rep.transitions += max(n, 1)
        if v == 'unsat':
            rep.oblige(1); continue
        rep.oblige(1, ok=False)
        if v == 'sat':
            # replay: pick the generator 11 of Z_q^*, map exponents to residues
            g = 11
            vals = [0 if (mask >> i) & 1 else pow(g, (model or {}).get('e%d' % i, 1), Q) for i in range(n)]
            want = ','.join(str(pow(x, Q - 2, Q)) for x in vals)
            dev, rel = replay.both(['felt_batch_inv', ','.join(map(str, vals)) if vals else '-'])
            rep.replayed += 1
            if dev != want or rel != want:
                rep.violation('batch_inverse_or_zero', 'batch_inverse_or_zero(%s) = %s / %s, expected %s' % (vals, dev, rel, want),
                              {'replay_request': ['felt_batch_inv', vals], 'expected': want, 'dev': dev, 'release': rel})
            else:
                rep.note_inconclusive('engine S (log domain) counterexample for batch inversion (len %d, zero mask %d) did not reproduce natively' % (n, mask))
        else:
            rep.note_inconclusive('engine S batch inversion len %d mask %d: %s' % (n, mask, v))
    rep.functions.append('Inverse::batch_inverse_or_zero (generic code, engine S log-domain instantiation)')
    rep.bounds.append('batch inversion: every batch length 0..%d, every zero pattern, all non-zero operands (exponents symbolic in Z_12288)' % maxlen)
    rep.trusted.append('F_q^* is cyclic of order q-1 (log-domain encoding of multiplication / inversion), and Felt multiplication / inversion are exact (harnesses above)')
    rep.sample({'engine': 'S', 'query': 'batch_inverse_or_zero on [g^e0, 0, g^e2]: some output is not the inverse', 'verdict': [v for n, m, v, _, _ in res if (n, m) == (3, 2)]})

"""Worker-side scenarios for C07 / C03 (engine M on the real MIR of decompress / compress)."""
import time
import z3
from ..mirsym import *
from ..mirsym.interp import simp
from .. import spec

_PROG = None


def prog():
    global _PROG
    if _PROG is None:
        _PROG, _ = load_program(fresh=False)
    return _PROG


def bits_of(xs):
    """bit terms (z3 Bool / python bool) of a list of u8 V, MSB first"""
    out = []
    for b in xs:
        if b.conc:
            out += [bool((b.t >> k) & 1) for k in range(7, -1, -1)]
        else:
            out += [z3.Extract(k, k, b.t) == 1 for k in range(7, -1, -1)]
    return out


def zb(b):
    return z3.BoolVal(b) if isinstance(b, bool) else b


def mag_terms(v):
    """(sign Bool, 16-bit magnitude) of an i16 V"""
    if v.conc:
        return v.t < 0, z3.BitVecVal(abs(v.t), 16)
    t = v.t
    return t < 0, z3.If(t < 0, -t, t)


def _neq(a, b):
    """a != b for operands that are python bools or z3 Bools; folds when both are concrete"""
    ca, cb = isinstance(a, bool), isinstance(b, bool)
    if ca and cb: return a != b
    if ca: return z3.Not(b) if a else b
    if cb: return z3.Not(a) if b else a
    return a != b


def ref_encoding_check(ex, xbits, vec, limit=spec.COEFF_LIMIT):
    """Under the current path condition: is there an input for which the returned vector `vec` is NOT the vector whose
    reference encoding (Algorithm 17, zero padded) equals the input bits, or is out of range / negative zero?
    Enumerates the feasible tuples of unary lengths of the symbolic coefficients (normally exactly one per path); concrete
    coefficients (production-size prefixes) are encoded and compared in python. Returns a model or None."""
    sym = [(i, v) for i, v in enumerate(vec) if not v.conc]
    terms = {i: mag_terms(v) for i, v in sym}
    highs = [z3.LShR(terms[i][1], 7) for i, _ in sym]
    found = None
    ex.push()
    try:
        rounds = 0
        while True:
            rounds += 1
            if rounds > 64:
                raise Unsupported('more than 64 unary-length tuples on one path')
            ex.nq += 1
            rr = ex.solver.check()
            if rr == z3.unknown:
                raise Unsupported('solver unknown in the reference-encoding check')
            if rr != z3.sat:
                break
            m = ex.solver.model()
            hs = {i: m.eval(h, model_completion=True).as_long() for (i, _), h in zip(sym, highs)}
            fix = z3.And(*[h == hs[i] for (i, _), h in zip(sym, highs)]) if sym else z3.BoolVal(True)
            viol = []          # python True or z3 terms
            pos = 0
            for i, v in enumerate(vec):
                if v.conc:
                    a = abs(v.t)
                    if a >= limit: viol.append(True)
                    ref = [v.t < 0] + [bool((a >> k) & 1) for k in range(6, -1, -1)] + [False] * (a >> 7) + [True]
                else:
                    sg, mg = terms[i]; hv = hs[i]
                    ref = [sg] + [z3.Extract(k, k, mg) == 1 for k in range(6, -1, -1)] + [False] * hv + [True]
                    viol.append(z3.And(sg, mg == 0))                  # negative zero
                    if hv * 128 >= limit: viol.append(True)             # out of range
                if pos + len(ref) > len(xbits):
                    viol.append(True); break
                for r in ref:
                    d = _neq(xbits[pos], r)
                    if d is not False: viol.append(d)
                    pos += 1
            else:
                for j in range(pos, len(xbits)):
                    if xbits[j] is not False: viol.append(xbits[j])
            if any(x is True for x in viol):
                found = ex.check(fix)[1]
                break
            zs = [x for x in viol if not isinstance(x, bool)]
            if zs:
                ok, mm = ex.check(fix, z3.Or(*zs))
                if ok:
                    found = mm
                    break
            if not sym:
                break
            ex.assume(z3.Not(fix))
    finally:
        ex.pop()
    return found


def decompress_scen(n, L, buf=None, deadline_s=None, tag=''):
    """explore decompress(x, n) for |x| = L; buf[i] = None (symbolic byte) or int (fixed)."""
    P = prog()
    ex = new_exec(P)
    if deadline_s:
        ex.deadline = time.time() + deadline_s
    xs = []
    for i in range(L):
        if buf is not None and buf[i] is not None:
            xs.append(mkint(buf[i], 'u8'))
        else:
            xs.append(ex.new_input('x%d' % i, 'u8'))
    xbits = bits_of(xs)
    out = {'some': 0, 'none': 0, 'noncanon': [], 'canon_queries': 0, 'samples': []}

    def inbytes(m):
        return [ex.eval_int(m, x) for x in xs]

    def on_ret(ex, st, rv):
        if rv.variant == 'None':
            out['none'] += 1
            return
        out['some'] += 1
        vec = list(rv.f[0].e)
        out['canon_queries'] += 1
        bad = None
        if len(vec) != n:
            bad = ex.model()
        else:
            bad = ref_encoding_check(ex, xbits, vec)
        if bad is not None and len(out['noncanon']) < 20:
            out['noncanon'].append({'input': inbytes(bad), 'decoded': [ex.eval_int(bad, v) for v in vec], 'n': n})
        elif len(out['samples']) < 2:
            m = ex.model()
            out['samples'].append({'input': inbytes(m), 'decoded': [ex.eval_int(m, v) for v in vec]})
    ex.on_return = on_ret
    fn = P.by_key['decompress']
    st = ex.start(fn, [temp_ref(Seq('arr', xs), (0, L)), mkint(n, 'usize')])
    ex.explore(st)
    panics = []
    seen = set()
    for p in ex.panics:
        k = (p['msg'], p['site'])
        if k in seen:
            continue
        seen.add(k)
        inp = p['inputs'] or {}
        panics.append({'msg': p['msg'], 'site': p['site'], 'n': n,
                       'input': [inp.get('x%d' % i, xs[i].t if xs[i].conc else 0) for i in range(L)]})
    asserts = sum(c[0] for c in ex.assert_sites.values())
    return {'n': n, 'L': L, 'tag': tag, 'paths': ex.paths, 'queries': ex.nq, 'solver_s': ex.solver_s, 'steps': ex.steps,
            'some': out['some'], 'none': out['none'], 'panics': panics, 'noncanon': out['noncanon'],
            'obligations': asserts + out['canon_queries'], 'violable': len(panics) + len(out['noncanon']),
            'samples': out['samples'], 'symbolic_bytes': len(ex.inputs),
            'mir_hash': {'decompress': fn.hash}}


def compress_scen(structures, L_offsets=(-1, 0, 1, 3), deadline_s=None, tag=''):
    """compress(v, L) for every vector v whose unary structure (h_0..h_{n-1}) is one of `structures`; signs and the
    7 low bits of every coefficient are symbolic, so each structure stands for 2^(8n) vectors. For each structure the
    byte budgets L = ceil(bits/8) + off are run. On every path: the result must equal Algorithm 17 bit for bit
    (None exactly when bits > 8L), and the real decompress on the (symbolic) output must return v."""
    P = prog()
    dfn = P.by_key['decompress']
    cfn = P.by_key['compress']
    tot = {'paths': 0, 'queries': 0, 'solver_s': 0.0, 'steps': 0, 'some': 0, 'none': 0, 'checks': 0, 'rt_paths': 0, 'runs': 0}
    bad = []; panics = []; samples = []
    seen = set()
    t_end = time.time() + deadline_s if deadline_s else None
    for hs in structures:
        n = len(hs)
        nbits = sum(9 + h for h in hs)
        need = (nbits + 7) // 8
        for off in L_offsets:
            L = need + off
            if L < 0:
                continue
            ex = new_exec(P)
            ex.deadline = t_end
            sg = [ex.new_input('s%d' % i, 'bool') for i in range(n)]
            lo = [ex.new_input('l%d' % i, 'u8') for i in range(n)]
            vs = []
            for i in range(n):
                ex.assume(z3.ULT(lo[i].t, 128))
                mag = z3.ZeroExt(8, lo[i].t) + z3.BitVecVal(128 * hs[i], 16)
                vs.append(V(z3.If(sg[i].t, -mag, mag), 'i16'))
            fits = n > 0 and nbits <= 8 * L

            def vals(m):
                return [ex.eval_int(m, v) for v in vs]
            st_out = {'ret': 0}

            def on_ret(ex, st, rv, vs=vs, sg=sg, lo=lo, hs=hs, L=L, fits=fits, n=n):
                st_out['ret'] += 1
                tot['checks'] += 1
                if rv.variant == 'None':
                    tot['none'] += 1
                    if fits:
                        bad.append({'kind': 'compress returned None although the encoding fits', 'v': vals(ex.model()), 'L': L})
                    return
                tot['some'] += 1
                by = list(rv.f[0].e)
                if not fits:
                    bad.append({'kind': 'compress returned Some although the encoding does not fit', 'v': vals(ex.model()), 'L': L})
                    return
                ref = []
                for i in range(n):
                    # sign bit of the reference: v < 0 (a "negative zero" request encodes +0)
                    ref.append(z3.And(sg[i].t, z3.BoolVal(hs[i] != 0) if hs[i] != 0 else lo[i].t != 0))
                    ref += [z3.Extract(k, k, lo[i].t) == 1 for k in range(6, -1, -1)]
                    ref += [z3.BoolVal(False)] * hs[i] + [z3.BoolVal(True)]
                ref += [z3.BoolVal(False)] * (8 * L - len(ref))
                xb = bits_of(by)
                viol = [z3.BoolVal(len(by) != L)] + [zb(a) != b for a, b in zip(xb, ref)]
                ok, mm = ex.check(z3.Or(*viol))
                if ok:
                    bad.append({'kind': 'compress output differs from Algorithm 17', 'v': vals(mm), 'L': L,
                                'got': [ex.eval_int(mm, b) for b in by]})
                if len(samples) < 3:
                    m = ex.model()
                    samples.append({'structure': list(hs), 'L': L, 'v': vals(m), 'bytes': [ex.eval_int(m, b) for b in by]})
                if any(h * 128 >= spec.COEFF_LIMIT for h in hs):
                    return      # out of the property's range (|v_i| < 12160): only the encoder is compared with Algorithm 17
                saved = ex.on_return
                rt = {'n': 0}

                def on_ret2(ex2, st2, rv2):
                    rt['n'] += 1
                    tot['checks'] += 1
                    if rv2.variant == 'None':
                        bad.append({'kind': 'decompress(compress(v)) = None', 'v': vals(ex.model()), 'L': L})
                        return
                    got = list(rv2.f[0].e)
                    if len(got) != n:
                        bad.append({'kind': 'decompress(compress(v)) has wrong length', 'v': vals(ex.model()), 'L': L}); return
                    diff = [(z3.BitVecVal(g.t, 16) if g.conc else g.t) != v.t for g, v in zip(got, vs)]
                    ok2, mm2 = ex.check(z3.Or(*diff))
                    if ok2:
                        bad.append({'kind': 'decompress(compress(v)) != v', 'v': vals(mm2), 'L': L, 'got': [ex.eval_int(mm2, g) for g in got]})
                ex.on_return = on_ret2
                try:
                    st2 = ex.start(dfn, [temp_ref(Seq('arr', by), (0, len(by))), mkint(n, 'usize')])
                    ex.explore(st2)
                finally:
                    ex.on_return = saved
                tot['rt_paths'] += rt['n']
                if rt['n'] == 0:
                    bad.append({'kind': 'decompress(compress(v)) never returns (panic)', 'v': vals(ex.model()), 'L': L})
            ex.on_return = on_ret
            st = ex.start(cfn, [temp_ref(Seq('arr', vs), (0, n)), mkint(L, 'usize')])
            ex.explore(st)
            tot['runs'] += 1
            if st_out['ret'] == 0 and not ex.panics:
                bad.append({'kind': 'compress never returns', 'v': [128 * h for h in hs], 'L': L})
            for p in ex.panics:
                k = (p['msg'], p['site'])
                if k in seen:
                    continue
                seen.add(k)
                mv = None
                panics.append({'msg': p['msg'], 'site': p['site'], 'fn': p['fn'], 'L': L, 'structure': list(hs),
                               'v': [(-1 if p['inputs'].get('s%d' % i) else 1) * (128 * hs[i] + p['inputs'].get('l%d' % i, 0)) for i in range(n)]})
            # production degrees: the length accumulator must hold 1024 * (9 + 94) bits
            for ty, nitems in ex.user.get('sum_types', []):
                if (1 << WIDTH[ty]) <= 1024 * 103 and not any(b.get('width') for b in bad):
                    bad.append({'kind': 'length accumulator of type %s too narrow for degree 1024 (needs to hold %d)' % (ty, 1024 * 103), 'v': [7040] * 1024, 'L': 1239, 'width': True})
            tot['paths'] += ex.paths; tot['queries'] += ex.nq; tot['solver_s'] += ex.solver_s; tot['steps'] += ex.steps
            tot['checks'] += sum(c[0] for c in ex.assert_sites.values())
    return {'tag': tag, 'paths': tot['paths'], 'queries': tot['queries'], 'solver_s': tot['solver_s'], 'steps': tot['steps'],
            'some': tot['some'], 'none': tot['none'], 'panics': panics, 'bad': bad[:20], 'runs': tot['runs'],
            'obligations': tot['checks'], 'violable': len(panics) + len(bad), 'samples': samples,
            'rt_paths': tot['rt_paths'], 'structures': len(structures), 'mir_hash': {'compress': cfn.hash, 'decompress': dfn.hash}}

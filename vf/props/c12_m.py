"""C12, engine M part: field multiplication decided on the real MIR with a product cut point.

Kani/CBMC decides `a * b` for the pinned code (a 32-bit multiply and `% Q`) in seconds, but a reduction that avoids the division
(Barrett / Montgomery style: 64-bit multiply by a constant, shift, conditional subtraction) does not finish under bit-blasting.
Here `<Felt as Mul>::mul`, `Felt::multiply` and `<Felt as MulAssign>::mul_assign` are executed symbolically; the one
symbolic-by-symbolic product a.0 * b.0 is replaced by a fresh p in [0, (q-1)^2] (sound over-approximation), and
`result == p mod q` is decided by cvc5 with its integer encoding of bit-vectors (--solve-bv-as-int=sum) and by z3.
A satisfying p is turned into operands (a, b) with a*b = p when such exist and replayed natively; p values that are not a
product of two residues are excluded and the query repeated (bounded)."""
import os, subprocess, tempfile, time
import z3
from ..common import *
from ..mirsym import *
from ..mirsym.interp import binop, mkint, simp
from .c07_scen import prog

Q = 12289
TARGETS = [('mul', '<Felt as Mul>::mul'), ('multiply', 'Felt::multiply'), ('mul_assign', '<Felt as MulAssign>::mul_assign')]


def _solve(asserts, timeout=90):
    """-> ('unsat'|'sat'|'unknown', model-dict or None, seconds, solver). cvc5 (integer encoding) first, z3 as second opinion."""
    s = z3.Solver()
    for c in asserts: s.add(c)
    txt = '(set-logic ALL)\n(set-option :produce-models true)\n' + s.to_smt2() + '\n(get-model)\n'
    t0 = time.time()
    verdict = 'unknown'; model = None; who = None
    with tempfile.NamedTemporaryFile('w', suffix='.smt2', delete=False) as f:
        f.write(txt); path = f.name
    try:
        try:
            p = subprocess.run(['cvc5', '--lang', 'smt2', '--solve-bv-as-int=sum', '--tlimit=%d' % (timeout * 1000), path],
                               stdout=subprocess.PIPE, stderr=subprocess.STDOUT, text=True, timeout=timeout + 10)
            out = p.stdout
        except (subprocess.TimeoutExpired, FileNotFoundError) as e:
            out = 'unknown'
        first = out.strip().split('\n')[0].strip() if out.strip() else 'unknown'
        if '(error' in out and first not in ('unsat',):
            first = 'unknown'
        if first in ('sat', 'unsat'):
            verdict = first; who = 'cvc5 1.0 --solve-bv-as-int=sum'
            if first == 'sat':
                import re
                model = {m.group(1): int(m.group(2), 2) for m in re.finditer(r'\(define-fun (\S+) \(\) \(_ BitVec \d+\) #b([01]+)\)', out)}
                model.update({m.group(1): int(m.group(2), 16) for m in re.finditer(r'\(define-fun (\S+) \(\) \(_ BitVec \d+\) #x([0-9a-fA-F]+)\)', out)})
    finally:
        os.unlink(path)
    if verdict == 'unknown':
        s.set('timeout', timeout * 1000)
        r = s.check()
        if r == z3.unsat: verdict = 'unsat'; who = 'z3'
        elif r == z3.sat:
            verdict = 'sat'; who = 'z3'
            m = s.model()
            model = {d.name(): m[d].as_long() for d in m.decls() if z3.is_bv_value(m[d])}
    return verdict, model, time.time() - t0, who


def mul_scen(which):
    label, key = [t for t in TARGETS if t[0] == which][0]
    P = prog()
    fn = P.by_key.get(key)
    if fn is None:
        return {'which': which, 'verdict': 'absent', 'note': 'no MIR body for ' + key}
    ex = new_exec(P)
    ex.prod_abstract = True; ex.use_intervals = True
    from ..mirsym import values as _values
    _values.NOSIMP[0] = True       # z3's rewrites (x - c*t as x + (2^32 - c)*t, comparisons split into extracts) defeat the integer encoding
    try:
        return _mul_scen(P, fn, ex, which, key)
    finally:
        _values.NOSIMP[0] = False


def _mul_scen(P, fn, ex, which, key):
    a = ex.new_input('a', 'u32'); b = ex.new_input('b', 'u32')
    ex.assume(z3.ULT(a.t, z3.BitVecVal(Q, 32))); ex.assume(z3.ULT(b.t, z3.BitVecVal(Q, 32)))
    ex.bounds['a'] = (0, Q - 1); ex.bounds['b'] = (0, Q - 1)
    fa = Agg('Felt', None, (a,)); fb = Agg('Felt', None, (b,))
    rets = []
    st = State()
    fr = Frame(fn, 0, {}); st.nfid = 1
    holder = None
    args = []
    for i, (p_, v_) in enumerate(zip(fn.params, (fa, fb))):
        if str(fn.types.get(p_, '')).startswith('&'):      # by reference (&self / &mut self / &Felt)
            cell = st.alloc(v_)
            if i == 0 and which == 'mul_assign':
                holder = cell
            args.append(Ref(cell))
        else:
            args.append(v_)
    for p_, a_ in zip(fn.params, args): fr.locals[p_] = a_
    st.stack.append(fr)

    def on_ret(e, s, rv):
        val = e.load(s, holder) if holder is not None else rv
        rets.append((val.f[0], [c for lvl in e.pc for c in lvl]))
    ex.on_return = on_ret
    # every solver question of this scenario (branch feasibility, overflow obligations) goes to the cvc5 integer encoding as well:
    # z3's bit-blasting does not return on the 64-bit constant multiplications of a division-free reduction
    stash = {}

    def cv_check(*extra):
        cons = [c for lvl in ex.pc for c in lvl] + list(extra)
        verdict, model, secs, who = _solve(cons, timeout=60)
        ex.nq += 1; ex.solver_s += secs
        if verdict == 'unknown':
            raise Unsupported('solver unknown (cvc5 and z3) on a path query of ' + key)
        stash['model'] = model
        return verdict == 'sat', None

    def cv_possible(cond, site=None):
        ok, _ = cv_check(cond)
        if ok:
            # the cut point over-approximates: prefer a model in which p really is a.0 * b.0 (a non-linear side condition the integer
            # encoding can often satisfy although it could not have proved anything with it); fall back to the abstract model
            cons = [c for lvl in ex.pc for c in lvl] + [cond]
            model = stash.get('model')
            for pv, x, y in ex.products.values():
                cons.append(pv == x * y)
            v2, m2, secs, who = _solve(cons, timeout=40)
            ex.solver_s += secs; ex.nq += 1
            realisable = None
            if v2 == 'sat' and m2 is not None:
                model = m2; realisable = True
            elif v2 == 'unsat':
                realisable = False
            stash.setdefault('panic_models', []).append(model)
            stash.setdefault('panic_realisable', []).append(realisable)
            if realisable is False:
                return False, None          # violable only for values no two operands produce: not an obligation of the real code
        return ok, None
    ex.check = cv_check; ex.check_local = lambda cond: cv_check(cond); ex.possible = cv_possible
    ex.explore(st)
    out = {'which': which, 'key': key, 'paths': ex.paths, 'steps': ex.steps, 'queries': ex.nq, 'solver_s': ex.solver_s, 'mir_hash': {key: fn.hash},
           'products': len(ex.products), 'panics': [{'msg': p['msg'], 'model': mm} for p, mm in zip(ex.panics[:3], stash.get('panic_models', [None] * 3))], 'checks': 0, 'verdict': None}
    prods = list(ex.products.values())
    tied = [pv for pv, x, y in prods if {x.get_id(), y.get_id()} == {a.t.get_id(), b.t.get_id()}]
    if len(tied) == 1:
        pvar = tied[0]
        want = z3.URem(pvar, z3.BitVecVal(Q, 32))
        out['oracle'] = 'result == p mod q, p the cut-point variable of self.0 * rhs.0, 0 <= p <= (q-1)^2'
    else:
        pvar = None
        want = z3.Extract(31, 0, z3.URem(z3.ZeroExt(32, a.t) * z3.ZeroExt(32, b.t), z3.BitVecVal(Q, 64)))
        out['oracle'] = 'result == (a*b) mod q (no single product of the two operands found in the code: %d products)' % len(prods)
    excluded = []
    for got, pc in rets:
        gt = z3.BitVecVal(got.t, 32) if got.conc else got.t
        for attempt in range(12):
            out['checks'] += 1
            cons = list(pc) + [gt != want] + ([pvar != z3.BitVecVal(x, 32) for x in excluded] if pvar is not None else [])
            verdict, model, secs, who = _solve(cons)
            out['solver_s'] += secs; out['queries'] += 1
            out.setdefault('decided_by', set()).add(who or 'none')
            if verdict == 'unsat':
                break
            if verdict == 'unknown':
                out['verdict'] = 'unknown'; out['decided_by'] = sorted(out['decided_by']); return out
            # sat: realise the operands
            if pvar is None:
                out['verdict'] = 'sat'; out['cex'] = {'a': model.get('a', 0), 'b': model.get('b', 0)}; out['decided_by'] = sorted(out['decided_by']); return out
            pval = model.get(str(pvar), 0)
            pair = next(((x, pval // x) for x in range(1, Q) if pval % x == 0 and pval // x < Q), None) if pval else (0, 0)
            if pair is None:
                excluded.append(pval); continue          # not a product of two residues: spurious for the abstraction, exclude and ask again
            out['verdict'] = 'sat'; out['cex'] = {'a': pair[0], 'b': pair[1], 'p': pval}; out['decided_by'] = sorted(out['decided_by']); return out
        else:
            out['verdict'] = 'unknown'; out['note'] = 'only non-realisable products found in 12 rounds'; out['decided_by'] = sorted(out['decided_by']); return out
    out['verdict'] = 'unsat' if rets else 'no returning path'
    out['excluded_nonproducts'] = len(excluded)
    out['decided_by'] = sorted(out.get('decided_by', []))
    return out

"""C09, engine M part: approx_exp vs the specification's loop (term equality / solver), on the real MIR."""
import math, struct, time
import z3
from ..common import *
from ..mirsym import *
from ..mirsym.interp import binop, cast_int, float_to_int, int_to_float, fbinop, mkint, simp
from .. import replay
from .c07_scen import prog
from .c09 import C_SPEC, LN2, ref_approx_exp, fhex


def spec_approx_exp_term(x, ccs):
    """ApproxExp of the specification built with the same scalar operations the interpreter uses, in the specification's order"""
    two63 = int_to_float(mkint(1 << 63, 'u64'))
    y = mkint(C_SPEC[0], 'u64')
    zf = V(z3.fpRoundToIntegral(z3.RTN(), fbinop('Mul', x, two63).t), 'f64')
    z = float_to_int(zf, 'u64')
    for c in C_SPEC[1:]:
        zy = binop('Mul', cast_int(z, 'u128'), cast_int(y, 'u128'))
        y = binop('Sub', mkint(c, 'u64'), cast_int(binop('Shr', zy, mkint(63, 'i32')), 'u64'))
    zf2 = V(z3.fpRoundToIntegral(z3.RTN(), fbinop('Mul', two63, ccs).t), 'f64')
    z2 = float_to_int(zf2, 'u64')
    r = binop('Shr', binop('Mul', cast_int(z2, 'u128'), cast_int(y, 'u128')), mkint(63, 'i32'))
    return cast_int(r, 'u64')


POINTS = [(0.0, 1.0), (0.3, 0.7), (0.6931471805599452, 1.0), (0.5, 0.5), (1e-9, 0.999), (0.2314993926072656, 0.8148006314615972)]


def approx_exp_scen():
    P = prog()
    ex = new_exec(P)
    x = ex.new_input('x', 'f64'); ccs = ex.new_input('ccs', 'f64')
    ex.assume(z3.And(z3.fpGEQ(x.t, z3.FPVal(0.0, z3.Float64())), z3.fpLT(x.t, z3.FPVal(LN2, z3.Float64()))))
    ex.assume(z3.And(z3.fpGT(ccs.t, z3.FPVal(0.0, z3.Float64())), z3.fpLEQ(ccs.t, z3.FPVal(1.0, z3.Float64()))))
    # the polynomial evaluation's `c - (z*y >> 63)` cannot underflow by the choice of the FACCT constants; proving that is a
    # 12-step non-linear argument outside this engine: the subtraction is executed wrapping here and the obligation is listed as not checked
    from ..mirsym.summaries import val_of

    def wrapping_sub(ex, st, fr, args, info):
        return binop('Sub', val_of(ex, st, args[0]), val_of(ex, st, args[1]))
    ex.over['Sub::sub'] = wrapping_sub
    got = []
    ex.on_return = lambda e, s, rv: got.append(rv)
    st = ex.start(P.by_key['approx_exp'], [x, ccs])
    ex.explore(st)
    out = {'paths': ex.paths, 'queries': ex.nq, 'steps': ex.steps, 'solver_s': 0.0, 'verdict': None, 'cex': None, 'mir_hash': {'approx_exp': P.by_key['approx_exp'].hash},
           'panics': [p['msg'] for p in ex.panics[:3]]}
    if len(got) != 1:
        out['verdict'] = 'unexpected number of paths: %d' % len(got); return out
    want = spec_approx_exp_term(x, ccs)
    a, b = got[0].t, want.t
    if a.eq(b):
        out['verdict'] = 'identical terms'; return out
    # not syntactically identical: ask the solver (bounded time), then point instances
    s = z3.Solver(); s.set('timeout', 60000)
    for c in [c for lvl in ex.pc for c in lvl]: s.add(c)
    s.add(a != b)
    t0 = time.time(); r = s.check(); out['solver_s'] += time.time() - t0
    if r == z3.unsat:
        out['verdict'] = 'equivalent (solver)'; return out
    if r == z3.sat:
        m = s.model()
        from ..mirsym.interp import fp_to_py
        out['verdict'] = 'differs'; out['cex'] = (fp_to_py(m.eval(x.t, model_completion=True)), fp_to_py(m.eval(ccs.t, model_completion=True))); return out
    for px, pc_ in POINTS:
        s2 = z3.Solver(); s2.set('timeout', 30000)
        s2.add(x.t == z3.FPVal(px, z3.Float64()), ccs.t == z3.FPVal(pc_, z3.Float64()), a != b)
        t0 = time.time(); r2 = s2.check(); out['solver_s'] += time.time() - t0
        if r2 == z3.sat:
            out['verdict'] = 'differs'; out['cex'] = (px, pc_); return out
    out['verdict'] = 'unknown'
    return out


GRID_X = [0.0, 0.1, 0.5, LN2, 1.0, 2 * LN2, 5.3, 44.0, 63 * LN2 + 0.01, 100.0, 700.0]
GRID_CCS = [0.5, 0.75, 0.7023, 1.0]


def ber_exp_scen():
    """the real MIR of ber_exp with approx_exp summarised by a fresh Y in [1, 2^63] (its arguments are recorded and compared
    with the specification's r = x - ln2*floor(x/ln2) and ccs): result == [the 7 bytes, big-endian, < top 56 bits of z]."""
    P = prog()
    ex = new_exec(P)
    x = ex.new_input('x', 'f64'); ccs = ex.new_input('ccs', 'f64')
    F = lambda v: z3.FPVal(v, z3.Float64())
    ex.assume(z3.And(z3.fpGEQ(x.t, F(0.0)), z3.fpLT(x.t, F(1024.0)), z3.fpGEQ(ccs.t, F(0.5)), z3.fpLEQ(ccs.t, F(1.0))))
    bs = [ex.new_input('b%d' % i, 'u8') for i in range(7)]
    Y = ex.new_input('Y', 'u64')
    ex.assume(z3.And(z3.UGE(Y.t, 1), z3.ULE(Y.t, z3.BitVecVal(1 << 63, 64))))
    calls = []

    def ov_approx(ex, st, fr, args, info):
        calls.append((args[0], args[1]))
        return Y
    ex.over['approx_exp'] = ov_approx
    # specification side
    s_f = V(z3.fpRoundToIntegral(z3.RTN(), fbinop('Div', x, V(LN2, 'f64')).t), 'f64')
    s_i = float_to_int(s_f, 'usize')
    r_spec = fbinop('Sub', x, fbinop('Mul', V(LN2, 'f64'), int_to_float(s_i)))
    sh = z3.If(z3.ULT(s_i.t, z3.BitVecVal(63, 64)), s_i.t, z3.BitVecVal(63, 64))
    zz = z3.LShR((z3.ZeroExt(64, Y.t) << 1) - 1, z3.ZeroExt(64, sh))
    z64 = z3.Extract(63, 0, zz)
    B = z3.Concat(*[b.t for b in bs])
    want = z3.ULT(B, z3.Extract(63, 8, z64))
    out = {'bad': [], 'checks': 0, 'ret': 0}

    def on_ret(ex, st, rv):
        out['ret'] += 1
        out['checks'] += 1
        rvt = z3.BoolVal(bool(rv.t)) if rv.conc else rv.t
        if len(calls) < 1 or not (calls[-1][0].t.eq(r_spec.t) and calls[-1][1].t.eq(ccs.t)):
            # arguments of approx_exp differ syntactically from the specification: ask the solver
            a0 = calls[-1][0].t if calls else None
            ok = True
            if a0 is not None:
                okq, m = ex.check_local(z3.Or(z3.Not(z3.fpEQ(a0, r_spec.t)), z3.Not(z3.fpEQ(calls[-1][1].t, ccs.t))))
                ok = not okq
            if not ok or a0 is None:
                out['bad'].append({'kind': 'ber_exp does not call approx_exp(x - ln2*floor(x/ln2), ccs)', 'model': None}); return
        okq, m = ex.check(rvt != want)
        if okq:
            from ..mirsym.interp import fp_to_py
            out['bad'].append({'kind': 'ber_exp differs from BerExp (7-byte comparison with the top of z)', 'x': fp_to_py(m.eval(x.t, model_completion=True)),
                               'ccs': fp_to_py(m.eval(ccs.t, model_completion=True)), 'Y': m.eval(Y.t, model_completion=True).as_long(),
                               'bytes': [ex.eval_int(m, b) for b in bs], 'path_cond': None})
    ex.on_return = on_ret
    fn = P.by_key['ber_exp']
    st = ex.start(fn, [x, ccs, Seq('arr', bs)])
    ex.explore(st)
    res = {'paths': ex.paths, 'queries': ex.nq, 'steps': ex.steps, 'solver_s': ex.solver_s, 'returned': out['ret'], 'bad': out['bad'][:4], 'checks': out['checks'] + sum(c[0] for c in ex.assert_sites.values()),
           'panics': [{'msg': p['msg'], 'site': p['site'], 'inputs': p['inputs']} for p in ex.panics[:3]], 'mir_hash': {'ber_exp': fn.hash}}
    # realisable witnesses: for grid points the true Y = approx_exp(r, ccs) is obtained natively; the solver is asked again with (x, ccs, Y) fixed
    if out['bad'] and any('Y' in b for b in out['bad']):
        pts = []
        for gx in GRID_X:
            for gc in GRID_CCS:
                sfl = math.floor(gx / LN2); r = gx - LN2 * sfl
                y = int(replay.call1(['approx_exp', fhex(r), fhex(gc)]))
                pts.append((gx, gc, y))
        res['grid'] = []
        ex2 = new_exec(P); ex2.over['approx_exp'] = lambda e, s_, f, a, i: Y
        for gx, gc, y in pts:
            sfl = int(math.floor(gx / LN2)); shv = min(sfl, 63)
            zv = (((y << 1) - 1) >> shv) & (2 ** 64 - 1)
            top = zv >> 8
            # candidates around the boundary of the comparison
            for cand in (top - 1, top, top + 1, 0, 2 ** 56 - 1):
                if 0 <= cand < 2 ** 56:
                    res['grid'].append((gx, gc, y, list(cand.to_bytes(7, 'big'))))
    return res


def confirm_ber(rep, r):
    """native differential on realisable points (true approx_exp values) around the comparison boundary"""
    from .c09 import ref_ber_exp
    for gx, gc, y, bs in r.get('grid', []):
        dev, rel = replay.both(['ber_exp', fhex(gx), fhex(gc), bytes(bs).hex()])
        rep.replayed += 1
        sfl = int(math.floor(gx / LN2)); shv = min(sfl, 63)
        zv = (((y << 1) - 1) >> shv) & (2 ** 64 - 1)
        want = 'true' if int.from_bytes(bytes(bs), 'big') < (zv >> 8) else 'false'
        if dev != want or rel != want:
            rep.violation('ber_exp:differs-from-spec', 'ber_exp(x=%r, ccs=%r, bytes=%s) = %s / %s; BerExp with approx_exp = %d gives %s' % (gx, gc, bytes(bs).hex(), dev, rel, y, want),
                          {'replay_request': ['ber_exp', fhex(gx), fhex(gc), bytes(bs).hex()], 'expected': want, 'dev': dev, 'release': rel})
            return True
    return False


def run(rep, tier):
    load_program(fresh=True)
    from .c02 import params_check
    params_check(rep, ('sigma', 'sigmin'))        # sigma_min / sigma of both variants: the range the sampler is called with
    rb = ber_exp_scen()
    rep.extra.setdefault('mir_hashes', {}).update(rb['mir_hash'])
    rep.states += rb['paths']; rep.transitions += rb['steps']; rep.queries += rb['queries']; rep.solver_s += rb['solver_s']
    rep.parts['ber_exp'] = {k: rb[k] for k in ('paths', 'returned', 'checks')}
    rep.sample({'engine': 'M', 'function': 'ber_exp', 'query': 'result == (7 random bytes, big endian) < (z >> 8) for all x in [0,1024), ccs in [1/2,1], all bytes, approx_exp result arbitrary in [1, 2^63]',
                'paths': rb['paths'], 'findings': len(rb['bad'])})
    rep.oblige(rb['checks'] - len(rb['bad']) - len(rb['panics'])); rep.oblige(len(rb['bad']) + len(rb['panics']), ok=False)
    if rb['returned'] == 0 and not rb['panics']:
        rep.note_inconclusive('vacuity: ber_exp scenario has no returning path')
    if rb['bad'] or rb['panics']:
        if not confirm_ber(rep, rb) and not any(v['key'].startswith('ber_exp') for v in rep.violations) and not rep.known_hit:
            for p in rb['panics']:
                rep.note_inconclusive('ber_exp (M): violable obligation %s at %s not reproduced on the realisable grid' % (p['msg'], p['site']))
            for b in rb['bad']:
                rep.note_inconclusive('ber_exp (M): %s (abstract approx_exp value %s) not reproduced on the realisable grid' % (b['kind'], b.get('Y')))
    rs = sampler_z_scen()
    rep.extra.setdefault('mir_hashes', {}).update(rs['mir_hash'])
    rep.states += rs['paths']; rep.transitions += rs['steps']; rep.queries += rs['queries']; rep.solver_s += rs['solver_s']
    rep.parts['sampler_z'] = {k: rs[k] for k in ('paths', 'returned', 'checks')}
    rep.sample({'engine': 'M', 'function': 'sampler_z', 'query': 'per returning path (<= 2 trips): bytes drawn 9/1/7, arguments of BerExp, control flow and returned value equal Algorithm 15; |mu| <= 2^14, sigma in [1.2, 1.8205]',
                'paths': rs['paths'], 'findings': len(rs['bad'])})
    rep.oblige(rs['checks'] - len(rs['bad']) - len(rs['panics'])); rep.oblige(len(rs['bad']) + len(rs['panics']), ok=False)
    if rs['returned'] == 0:
        rep.note_inconclusive('vacuity: sampler_z scenario has no returning path')
    if rs['bad'] or rs['panics']:
        from .c09 import sampler_z_battery
        what = '; '.join([b['kind'] for b in rs['bad']][:2] + [p['msg'] for p in rs['panics']][:1])
        if not sampler_z_battery(rep, what):
            rep.note_inconclusive('sampler_z (M): %s - not reproduced natively on the reference battery' % what)
    else:
        from .c09 import sampler_z_battery
        sampler_z_battery(rep, 'reference battery (validation)')       # 60 native runs against the specification-level reference: validated traces
    rep.assumptions.append('sampler_z (M): |mu| <= 2^14 (beyond that `floor(mu) as i16` saturates and the final i16 addition can overflow: outside the claim); base_sampler / ber_exp / the generator return arbitrary values')
    rep.assumptions.append('ber_exp (M): approx_exp is summarised by an arbitrary value in [1, 2^63]; that range on the domain is what the Kani totality harness establishes for the real composition')
    r = approx_exp_scen()
    rep.extra.setdefault('mir_hashes', {}).update(r['mir_hash'])
    rep.states += r['paths']; rep.transitions += r['steps']; rep.queries += r['queries'] + 1; rep.solver_s += r['solver_s']
    rep.parts['approx_exp'] = {k: r[k] for k in ('verdict', 'paths', 'panics')}
    rep.sample({'engine': 'M', 'function': 'approx_exp', 'query': 'result term vs ApproxExp of the specification for all x in [0, ln 2), ccs in (0, 1]', 'verdict': r['verdict']})
    rep.outside.append('approx_exp: absence of underflow in `c - (z*y >> 63)` (follows from the FACCT constants; a 12-step non-linear argument) is not checked')
    if r['verdict'] in ('identical terms', 'equivalent (solver)'):
        rep.oblige(1)
    elif r['verdict'] == 'differs':
        rep.oblige(1, ok=False)
        x, ccs = r['cex']
        want = str(ref_approx_exp(x, ccs))
        dev, rel = replay.both(['approx_exp', fhex(x), fhex(ccs)])
        rep.replayed += 1
        if dev != want or rel != want:
            rep.violation('approx_exp:differs-from-spec', 'approx_exp(x=%r, ccs=%r) = %s / %s, ApproxExp of the specification gives %s' % (x, ccs, dev, rel, want),
                          {'replay_request': ['approx_exp', fhex(x), fhex(ccs)], 'expected': want, 'dev': dev, 'release': rel})
        else:
            # try the fixed points natively as well
            for px, pc_ in POINTS:
                w2 = str(ref_approx_exp(px, pc_)); d2, r2 = replay.both(['approx_exp', fhex(px), fhex(pc_)])
                if d2 != w2 or r2 != w2:
                    rep.violation('approx_exp:differs-from-spec', 'approx_exp(x=%r, ccs=%r) = %s / %s, ApproxExp of the specification gives %s' % (px, pc_, d2, r2, w2),
                                  {'replay_request': ['approx_exp', fhex(px), fhex(pc_)], 'expected': w2, 'dev': d2, 'release': r2})
                    return
            rep.note_inconclusive('approx_exp: solver counterexample (%r, %r) did not reproduce natively' % (x, ccs))
    else:
        rep.oblige(1, ok=False)
        rep.note_inconclusive('approx_exp: %s' % r['verdict'])


# ---------------------------------------------------------------------------------------------- sampler_z: the loop body (up to two trips)
SIGMA_MAX = 1.8205
INV_2SIGMA_MAX_SQ = 1.0 / (2.0 * SIGMA_MAX * SIGMA_MAX)


def sampler_z_scen(max_trips=2):
    """real MIR of sampler_z with base_sampler / ber_exp / the generator replaced by arbitrary results (their own checks are
    above); per returning path: the value returned, the arguments handed to ber_exp and the bytes drawn are those of
    Algorithm 15 (SamplerZ) in the reference implementation's operation order."""
    import re as _re
    P = prog()
    ex = new_exec(P)
    F = lambda v: z3.FPVal(v, z3.Float64())
    mu = ex.new_input('mu', 'f64'); sigma = ex.new_input('sigma', 'f64'); sigmin = ex.new_input('sigmin', 'f64')
    ex.assume(z3.And(z3.fpGEQ(mu.t, F(-16384.0)), z3.fpLEQ(mu.t, F(16384.0)), z3.fpGEQ(sigma.t, F(1.2)), z3.fpLEQ(sigma.t, F(SIGMA_MAX)),
                     z3.fpGEQ(sigmin.t, F(1.2)), z3.fpLEQ(sigmin.t, sigma.t)))
    draws = []       # per path kept in st.env
    cnt = {'n': 0}

    def ov_gen(ex, st, fr, args, info):
        raw = info['raw']
        m = _re.search(r'gen::<\[u8; (\d+)\]>', raw)
        cnt['n'] += 1
        if m:
            k = int(m.group(1))
            v = Seq('arr', [ex.new_input('rnd%d_%d' % (len(st.env.get('draws', ())), i), 'u8') for i in range(k)])
        elif 'gen::<u8>' in raw:
            k = 1
            v = ex.new_input('rnd%d_0' % len(st.env.get('draws', ())), 'u8')
        else:
            raise Unsupported('rng.gen of ' + raw)
        st.env['draws'] = st.env.get('draws', ()) + ((k, v),)
        return v

    def ov_base(ex, st, fr, args, info):
        t = len(st.env.get('z0s', ()))
        if t >= max_trips:
            from ..mirsym.interp import PathEnd
            st.env['cut'] = True
            raise PathEnd()
        z0 = ex.new_input('z0_%d' % t, 'i16')
        ex.assume(z3.And(z0.t >= 0, z0.t <= 18))
        st.env['z0s'] = st.env.get('z0s', ()) + ((z0, args[0]),)
        return z0

    def ov_ber(ex, st, fr, args, info):
        t = len(st.env.get('bers', ()))
        acc = ex.new_input('accept_%d' % t, 'bool')
        st.env['bers'] = st.env.get('bers', ()) + ((args[0], args[1], args[2], acc),)
        return acc
    ex.over.update({'Rng::gen': ov_gen, 'base_sampler': ov_base, 'ber_exp': ov_ber})
    # specification side (reference implementation's order of floating-point operations)
    isigma = fbinop('Div', V(1.0, 'f64'), sigma)
    dss_forms = [fbinop('Mul', fbinop('Mul', V(0.5, 'f64'), isigma), isigma), fbinop('Mul', V(0.5, 'f64'), fbinop('Mul', isigma, isigma))]
    s_f = V(z3.fpRoundToIntegral(z3.RTN(), mu.t), 'f64')
    r_f = fbinop('Sub', mu, s_f)
    ccs_forms = [fbinop('Mul', sigmin, isigma), fbinop('Mul', isigma, sigmin)]
    out = {'ret': 0, 'bad': [], 'checks': 0}

    def on_ret(ex, st, rv):
        out['ret'] += 1
        z0s = st.env.get('z0s', ()); bers = st.env.get('bers', ()); dr = st.env.get('draws', ())
        trips = len(bers)
        out['checks'] += 1
        # bytes drawn: per trip 9 (base sampler), 1 (sign), 7 (BerExp), in that order
        sizes = [k for k, _ in dr]
        if sizes != [9, 1, 7] * trips or len(z0s) != trips:
            out['bad'].append({'kind': 'random bytes are not drawn as 9, 1, 7 per trip (%s)' % sizes}); return
        for t in range(trips):
            z0, arg9 = z0s[t]
            xarg, ccsarg, b7, acc = bers[t]
            if arg9 is not dr[3 * t][1] or b7 is not dr[3 * t + 2][1]:
                out['bad'].append({'kind': 'base_sampler / ber_exp do not receive the bytes just drawn (trip %d)' % t}); return
            bbyte = dr[3 * t + 1][1]
            b = cast_int(binop('BitAnd', bbyte, mkint(1, 'u8')), 'i16')
            z = binop('Add', b, binop('Mul', binop('Sub', binop('Shl', b, mkint(1, 'i32')), mkint(1, 'i16')), z0))
            zr = fbinop('Sub', int_to_float(z), r_f)
            okx = False
            for dss in dss_forms:
                xs = fbinop('Sub', fbinop('Mul', fbinop('Mul', zr, zr), dss), fbinop('Mul', int_to_float(binop('Mul', z0, z0)), V(INV_2SIGMA_MAX_SQ, 'f64')))
                if xarg.t.eq(xs.t): okx = True
            okc = any(ccsarg.t.eq(c.t) for c in ccs_forms)
            out['checks'] += 2
            if not okx:
                out['bad'].append({'kind': 'the x handed to BerExp is not ((z - r)^2) * dss - z0^2 / (2 sigma_max^2) in the reference order (trip %d)' % t, 'need_solver': True})
            if not okc:
                out['bad'].append({'kind': 'the ccs handed to BerExp is not sigma_min / sigma (trip %d)' % t, 'need_solver': True})
            # control flow: this trip returned iff accept_t, earlier trips were rejected
            last = t == trips - 1
            out['checks'] += 1
            ok, _ = ex.check(acc.t if not last else z3.Not(acc.t))
            if ok:
                out['bad'].append({'kind': 'control flow: trip %d %s although BerExp %s' % (t, 'continues' if not last else 'returns', 'accepted' if not last else 'rejected')})
            if last:
                si = float_to_int(s_f, 'i16')
                want = binop('Add', z, si)
                out['checks'] += 1
                okv, m = ex.check((rv.t if not rv.conc else z3.BitVecVal(rv.t, 16)) != want.t)
                if okv:
                    out['bad'].append({'kind': 'returned value is not z + floor(mu)', 'model': {k: v for k, v in ex.model_inputs(m).items() if not k.startswith('rnd') or k.endswith('_0')}})
    ex.on_return = on_ret
    fn = P.by_key['sampler_z']
    st = ex.start(fn, [mu, sigma, sigmin, temp_ref(Opaque('rng'))])
    ex.explore(st)
    return {'paths': ex.paths, 'queries': ex.nq, 'steps': ex.steps, 'solver_s': ex.solver_s, 'returned': out['ret'], 'bad': out['bad'][:5],
            'checks': out['checks'] + sum(c[0] for c in ex.assert_sites.values()), 'panics': [{'msg': p['msg'], 'site': p['site']} for p in ex.panics[:3]],
            'mir_hash': {'sampler_z': fn.hash}}

"""C07 — signature compression is lossless and canonical (Algorithms 17/18). Engine M on the real MIR of
compress / compress_coefficient / decompress; oracle = bit-level reference codec in vf/spec.py + z3 terms in c07_scen."""
import itertools, random
from ..common import *
from .. import replay, spec
from ..mirsym import load_program
from ..mirsym.runner import run_jobs

MOD = 'vf.props.c07_scen'


def hexs(bs):
    return bytes(bs).hex() if bs else '-'


def dec_jobs(tier, rnd):
    jobs = []
    full = [(1, L) for L in range(1, 9)] + [(2, L) for L in range(2, 5)] + [(3, 3), (3, 4)]
    if tier == 'thorough':
        full += [(1, L) for L in range(9, 17)] + [(2, 5), (2, 6), (3, 5), (4, 5)]
    for n, L in full:
        jobs.append((MOD, 'decompress_scen', dict(n=n, L=L, tag='full n=%d L=%d' % (n, L), deadline_s=3000)))
    # structured: long zero stretches reach the 95-, 256-, 512-zero unary runs
    for L in (15, 34, 35, 66, 67, 68):
        jobs.append((MOD, 'decompress_scen', dict(n=1, L=L, buf=[None, None] + [0] * (L - 3) + [None], tag='n=1 zero-stretch L=%d' % L, deadline_s=3000)))
    # run lengths around the 95 limit at every alignment of the limit inside a byte: the run of coefficient 0 starts at bit 8, so k zero
    # bytes after a symbolic byte give runs 8k .. 8k+15; k = 10..13 covers 80..119
    for k in (10, 11, 12, 13):
        L = 2 + k + 3
        jobs.append((MOD, 'decompress_scen', dict(n=2, L=L, buf=[None, None] + [0] * k + [None] * 3, tag='n=2 long run in coeff 0, k=%d' % k, deadline_s=3000)))
    # the same for a middle coefficient (n = 3), whose start is not byte aligned (coefficient 0 takes 9..16 bits)
    if tier == 'thorough':
        for k in (10, 11):
            L = 3 + k + 3
            jobs.append((MOD, 'decompress_scen', dict(n=3, L=L, buf=[None, None, None] + [0] * k + [None] * 3, tag='n=3 long run in coeff 1, k=%d' % k, deadline_s=6000)))
    for k in (12, 32, 64):
        L = 3 + k + 1
        jobs.append((MOD, 'decompress_scen', dict(n=2, L=L, buf=[None] * 3 + [0] * k + [None], tag='n=2 long run in coeff 1, k=%d' % k, deadline_s=3000)))
    # production degrees, counting effects: whatever the decoder accumulates per coefficient (flags, counters, offsets) has to survive
    # 512 / 1024 rounds. All-negative-zero strings, and 256 negative zeros followed by valid zeros (a narrow counter wraps to 0 there);
    # the last byte stays symbolic. Both must be rejected without a panic.
    for n, L in ((512, 625), (1024, 1239)):
        for name, bits in (('all coefficients negative zero', '100000001' * n),
                           ('256 negative zeros, then zeros', '100000001' * 256 + '000000001' * (n - 256)),
                           ('negative zero at every 2nd position', ('100000001' + '000000001') * (n // 2))):
            bits = bits + '0' * (8 * L - len(bits))
            buf = [int(bits[8 * i:8 * i + 8], 2) for i in range(L)]
            buf[-1] = None
            jobs.append((MOD, 'decompress_scen', dict(n=n, L=L, buf=buf, tag='n=%d L=%d %s' % (n, L, name), deadline_s=3000)))
    if tier == 'thorough':
        # production sizes: concrete valid prefix, symbolic tail (where the end-of-buffer special cases live)
        for n, L in ((512, 625), (1024, 1239)):
            for tail_bits, zeros in ((20, 0), (27, 0), (33, 0), (24, 40)):
                jobs.append((MOD, 'decompress_scen', prod_scenario(n, L, tail_bits, zeros, rnd)))
    return jobs


def prod_scenario(n, L, tail_bits, zeros, rnd):
    """n-2 concrete coefficients encoded by the reference encoder so that exactly `tail_bits` (+ `zeros` zero bytes) remain;
    everything after the last whole prefix byte is symbolic (except the zero stretch)."""
    k = 2
    P = 8 * L - tail_bits - 8 * zeros                 # target length of the prefix in bits
    v = [max(-2047, min(2047, int(rnd.gauss(0, 170)))) for _ in range(n - k)]
    bits = len(spec.compress_bits(v))
    guard = 0
    while bits != P and guard < 200000:
        guard += 1
        i = rnd.randrange(len(v))
        h = abs(v[i]) >> 7
        if bits < P and h < 90:
            v[i] += 128 if v[i] >= 0 else -128; bits += 1
        elif bits > P and h > 0:
            v[i] -= 128 if v[i] > 0 else -128; bits -= 1
    assert bits == P and bits == len(spec.compress_bits(v)), (bits, P)
    pre = spec.compress_bits(v)
    nb = len(pre) // 8
    prefix = [int(''.join(map(str, pre[8 * j:8 * j + 8])), 2) for j in range(nb)]
    # the leftover bits of the prefix (less than a byte) are symbolic together with the tail: the decoder then also explores
    # inputs whose prefix differs there; all of them are checked against the reference
    buf = prefix + [None] * (L - nb)
    if zeros:
        z0 = nb + 3
        for j in range(z0, min(z0 + zeros, L - 1)):
            buf[j] = 0
    return dict(n=n, L=L, buf=buf, tag='production n=%d L=%d: %d concrete prefix bytes, %d symbolic, %d zero' % (n, L, nb, sum(1 for b in buf if b is None), zeros), deadline_s=3000)


def comp_jobs(tier):
    jobs = []
    one = [(h,) for h in range(95)] + [(95,), (96,), (120,), (255,)]
    chunks = [one[i::8] for i in range(8)]
    for c in chunks:
        jobs.append((MOD, 'compress_scen', dict(structures=c, tag='n=1 all unary lengths', deadline_s=3000)))
    if tier == 'quick':
        hs = (0, 1, 2, 7, 94)
        two = list(itertools.product(hs, repeat=2))
        three = list(itertools.product((0, 1, 94), repeat=3))
    else:
        two = list(itertools.product(range(95), repeat=2))
        three = list(itertools.product((0, 1, 2, 5, 8, 47, 93, 94), repeat=3))
    k = 16 if tier == 'quick' else 64
    for i in range(k):
        if two[i::k]:
            jobs.append((MOD, 'compress_scen', dict(structures=two[i::k], tag='n=2 structures', deadline_s=3000)))
    k3 = 8 if tier == 'quick' else 32
    for i in range(k3):
        if three[i::k3]:
            jobs.append((MOD, 'compress_scen', dict(structures=three[i::k3], L_offsets=(-1, 0, 2), tag='n=3 structures', deadline_s=3000)))
    return jobs


def confirm_decompress_panic(rep, p, pid='C07'):
    req = ['decompress', p['n'], hexs(p['input'])]
    dev, rel = replay.both(req)
    rep.replayed += 1
    if dev.startswith('PANIC') or rel.startswith('PANIC'):
        rep.violation('decompress:panic:' + classify(p['msg']), 'decompress(x=%s, n=%d) panics: dev=%r release=%r (MIR obligation: %s at %s)'
                      % (hexs(p['input']), p['n'], dev, rel, p['msg'], p['site']),
                      {'replay_request': req, 'dev': dev, 'release': rel, 'expect': 'no panic'})
        return True
    rep.note_inconclusive('solver-found panic did not reproduce natively: %s -> %r / %r' % (req, dev, rel))
    return False


def classify(msg):
    if 'index out of bounds' in msg: return 'index-out-of-bounds'
    if 'overflow' in msg: return 'arithmetic-overflow'
    return msg[:40]


def confirm_noncanon(rep, nc):
    req = ['decompress', nc['n'], hexs(nc['input'])]
    dev, rel = replay.both(req)
    rep.replayed += 1
    for prof, r in (('dev', dev), ('release', rel)):
        if r.startswith('Some'):
            body = r[4:].strip()
            v = [int(t) for t in body.split(',')] if body else []
            ref = spec.compress(v, len(nc['input']))
            ref_dec = spec.decompress(bytes(nc['input']), nc['n'])
            if ref is None or list(ref) != list(nc['input']) or ref_dec != v:
                rep.violation('decompress:non-canonical-accept', 'decompress(x=%s, n=%d) = Some(%s) [%s] but Algorithm 17 encodes that vector as %s (Algorithm 18 on x: %s)'
                              % (hexs(nc['input']), nc['n'], v, prof, ref.hex() if ref else None, ref_dec),
                              {'replay_request': req, 'dev': dev, 'release': rel, 'reference_encoding': ref.hex() if ref else None})
                return True
        elif r.startswith('PANIC'):
            rep.violation('decompress:panic:' + classify(r), 'decompress(x=%s, n=%d) panics: %s [%s]' % (hexs(nc['input']), nc['n'], r, prof),
                          {'replay_request': req, 'dev': dev, 'release': rel})
            return True
    rep.note_inconclusive('non-canonical acceptance did not reproduce natively: %s -> %r / %r' % (req, dev, rel))
    return False


def confirm_compress_bad(rep, b):
    v = b['v']; L = b['L']
    req = ['compress', L, ','.join(map(str, v)) if v else '-']
    dev, rel = replay.both(req)
    rep.replayed += 1
    ref = spec.compress(v, L)
    exp = 'None' if ref is None else 'Some ' + (ref.hex() if ref else '-')
    ok = False
    for prof, r in (('dev', dev), ('release', rel)):
        if r != exp:
            rep.violation('compress:' + b['kind'], 'compress(v=%s, L=%d) = %r [%s], Algorithm 17 gives %r' % (v, L, r, prof, exp),
                          {'replay_request': req, 'dev': dev, 'release': rel, 'expected': exp})
            return True
    if ref is not None:
        req2 = ['decompress', len(v), hexs(ref)]
        d2, r2 = replay.both(req2)
        rep.replayed += 1
        exp2 = 'Some ' + ','.join(map(str, v))
        if d2 != exp2 or r2 != exp2:
            rep.violation('decompress:rejects-or-alters-valid-encoding', 'decompress(compress(v=%s, L=%d)) = %r / %r, expected %r' % (v, L, d2, r2, exp2),
                          {'replay_request': req2, 'dev': d2, 'release': r2, 'expected': exp2})
            return True
    rep.note_inconclusive('compress finding did not reproduce natively: %s (%s)' % (b, dev))
    return False


def validate_samples(rep, job, r):
    """translator validation: the models mirsym produced for accepting paths are pushed through the real code; the native
    result must be what mirsym computed (a disagreement means the executor or a summary misrepresents the code)"""
    for smp in r.get('samples', [])[:2]:
        if job[1] == 'decompress_scen':
            got = replay.call1(['decompress', r['n'], hexs(smp['input'])])
            want = 'Some ' + ','.join(map(str, smp['decoded']))
        else:
            got = replay.call1(['compress', smp['L'], ','.join(map(str, smp['v'])) if smp['v'] else '-'])
            want = 'Some ' + (hexs(smp['bytes']))
        if got == want:
            rep.replayed += 1
        else:
            rep.note_inconclusive('translator validation failed (%s): mirsym says %s, the real code says %s' % (r.get('tag'), want[:80], got[:80]))


def run(rep, tier, what=('dec', 'comp')):
    rnd = random.Random(seed() * 7919 + 17)
    prog, secs = load_program(fresh=True)
    rep.parts['mir_dump_s'] = round(secs, 1)
    jobs = []
    if 'dec' in what: jobs += dec_jobs(tier, rnd)
    if 'comp' in what: jobs += comp_jobs(tier)
    hashes = {}
    # results are absorbed as they arrive; once a violation has been replayed natively the remaining scenarios are cancelled
    results = run_jobs(jobs, workers=NCPU, order_seed=seed(), on_result=lambda job, r: handle(rep, job, r, hashes))
    rep.extra.setdefault('mir_hashes', {}).update(hashes)
    if rep.violations:
        rep.inconclusive = [x for x in rep.inconclusive if 'translator validation' in x]
    return results


def handle(rep, job, r, hashes):
    if True:
        if r.get('error'):
            rep.oblige(1, ok=False)
            rep.note_inconclusive('%s %s: %s' % (job[1], job[2].get('tag'), r['error']))
            return False
        hashes.update(r.get('mir_hash', {}))
        rep.states += r['paths']; rep.transitions += r['steps']; rep.queries += r['queries']; rep.solver_s += r['solver_s']
        rep.oblige(r['obligations'] - r['violable']); rep.oblige(r['violable'], ok=False)
        rep.parts.setdefault('scenarios', []).append({'scenario': r.get('tag'), 'paths': r['paths'], 'queries': r['queries'], 'some': r.get('some'), 'none': r.get('none'),
                                                      'obligations': r['obligations'], 'wall_s': round(r['wall_s'], 1)})
        for s in r.get('samples', [])[:1]:
            rep.sample({'scenario': r.get('tag'), 'accepted_path_model': s})
        validate_samples(rep, job, r)
        for p in r.get('panics', []):
            if job[1] == 'decompress_scen':
                confirm_decompress_panic(rep, p, rep.pid)
            else:
                confirm_compress_bad(rep, {'v': p['v'], 'L': p['L'], 'kind': 'panic:' + classify(p['msg'])}) if p['fn'].startswith('compress') else \
                    confirm_decompress_panic(rep, {'n': len(p['v']), 'input': list(spec.compress(p['v'], p['L']) or b''), 'msg': p['msg'], 'site': p['site']})
        for nc in r.get('noncanon', []):
            confirm_noncanon(rep, nc)
        for b in r.get('bad', []):
            confirm_compress_bad(rep, b)
    return bool(rep.violations)


def check(tier):
    rep = Report('C07', tier)
    rep.functions = ['encoding::compress (+ closures)', 'encoding::compress_coefficient', 'encoding::decompress']
    rep.bounds = ['decompress, fully symbolic buffers (n,L): quick (1,1..8) (2,2..4) (3,3..4); thorough adds (1,9..16) (2,5..6) (3,5) (4,5)',
                  'decompress, structured buffers: n=1 L in {15,34,35,66,67,68}; n=2 with a zero stretch of 10..13 bytes in coefficient 0 or 12/32/64 bytes in coefficient 1; n=3 with 10/11 zero bytes in the middle coefficient (thorough only; everything else symbolic)',
                  'decompress, production sizes (thorough): n=512/L=625 and n=1024/L=1239 with a concrete reference-encoded prefix (VERIF_SEED) and a symbolic tail of 20..33 bits (+40 zero bytes)',
                  'compress: every unary structure for n=1 (all 95 in range + 4 out of range), n=2 quick 25 / thorough all 9025 structures, n=3 quick 27 / thorough 512; signs and low bits symbolic; L = ceil(bits/8)+{-1,0,1,3}']
    rep.outside = ['fully symbolic buffers longer than the above; more than 4 simultaneously symbolic coefficients; zero stretches at other positions',
                   'compress for n>3 and for structures not enumerated']
    rep.trusted = ['mirsym library summaries (BitVec::{from_bytes,len,index,get}, Vec, slice iterators, div_mod_floor, unsigned_abs, Itertools::collect_vec, Iterator::{map,sum,take,skip})',
                   'z3 4.x (python API)', 'rustc nightly MIR dump == semantics of the stable build (same source, overflow checks on)']
    rep.assumptions = ['oracle: Algorithms 17/18 written independently in vf/spec.py and as z3 terms in vf/props/c07_scen.py; range rule |v_i| < 12160']
    run(rep, tier)
    return rep.finish()

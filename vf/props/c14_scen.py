"""Worker-side scenario for C14: hash_to_point on the real MIR with the SHAKE reader replaced by a symbolic stream."""
import time
import z3
from ..mirsym import *
from ..mirsym.interp import simp, PathEnd
from .. import spec
from .c07_scen import prog

Q = spec.Q
KQ = (65536 // Q) * Q          # 61445, from the specification


def h2p_scen(n, max_rej, prefix=None, deadline_s=None, tag=''):
    P = prog()
    ex = new_exec(P)
    if deadline_s:
        ex.deadline = time.time() + deadline_s
    nchunks = 2 * n + max_rej + 8      # room for implementations that squeeze in bulk; rejections are bounded by the assumption below
    stream = [ex.new_input('r%d' % i, 'u8') for i in range(2 * nchunks)]
    msg = [ex.new_input('m%d' % i, 'u8') for i in range(3)]
    tvals = [z3.Concat(z3.BitVecVal(0, 16), stream[2 * i].t, stream[2 * i + 1].t) for i in range(nchunks)]   # 32-bit, big endian
    # implementations that squeeze whole blocks ahead: the stream continues with `extra` further chunks, all of them accepted ones (the
    # rejection bound below speaks about the whole stream); reading beyond that is cut
    extra = 208
    for i in range(2 * nchunks, 2 * (nchunks + extra)):
        stream.append(ex.new_input('r%d' % i, 'u8'))
    for i in range(nchunks, nchunks + extra):
        tvals.append(z3.Concat(z3.BitVecVal(0, 16), stream[2 * i].t, stream[2 * i + 1].t))
        ex.assume(z3.ULT(tvals[i], z3.BitVecVal(KQ, 32)))
    HARD = len(stream)
    for i, pb in enumerate(prefix or []):
        a = z3.ULT(tvals[i], z3.BitVecVal(KQ, 32))
        ex.assume(a if pb else z3.Not(a))
    rej = [z3.If(z3.UGE(t, z3.BitVecVal(KQ, 32)), z3.BitVecVal(1, 8), z3.BitVecVal(0, 8)) for t in tvals[:nchunks]]
    ex.assume(z3.ULE(sum(rej[1:], rej[0]), z3.BitVecVal(max_rej, 8)))      # bound: at most max_rej rejected chunks in the whole stream
    log = {'absorbed': [], 'finalized': 0, 'cut': 0}
    out = {'ret': 0, 'bad': [], 'checks': 0, 'samples': []}

    def ov_default(ex, st, fr, args, info):
        return Opaque('shake', ('fresh',))

    def ov_update(ex, st, fr, args, info):
        h = ex.load(st, args[0].loc)
        if h.data[0] != 'fresh' and h.data[0] != 'absorbing':
            raise Unsupported('update after finalize')
        data = tuple(ex.slice_elems(st, args[1]))
        prev = h.data[1] if len(h.data) > 1 else ()
        ex.store(st, args[0].loc, Opaque('shake', ('absorbing', prev + data)))
        return UNIT

    def ov_finalize(ex, st, fr, args, info):
        h = args[0]
        absorbed = h.data[1] if len(h.data) > 1 else ()
        return Opaque('xof', (0, absorbed))

    def ov_read(ex, st, fr, args, info):
        r = ex.load(st, args[0].loc)
        pos, absorbed = r.data
        buf = args[1]
        k = ex.slice_len(st, buf)
        if pos + k > HARD:
            log['cut'] += 1
            raise PathEnd()            # far more stream than any reading of Algorithm 3 needs under the stated rejection bound: outside the claim
        base = buf.rng[0] if buf.rng else 0
        cur = ex.load(st, buf.loc)
        e = list(cur.e)
        for j in range(k):
            e[base + j] = stream[pos + j]
        ex.store(st, buf.loc, Seq(cur.kind, e))
        ex.store(st, args[0].loc, Opaque('xof', (pos + k, absorbed)))
        st.env['xof_pos'] = pos + k
        st.env['absorbed'] = absorbed
        return UNIT
    ex.over.update({'Default::default': ov_default, 'Update::update': ov_update, 'ExtendableOutput::finalize_xof': ov_finalize,
                    'XofReader::read': ov_read})

    def on_ret(ex, st, rv):
        out['ret'] += 1
        coeffs = list(rv.f[0].e)
        used = st.env.get('xof_pos', 0) // 2
        absorbed = st.env.get('absorbed', ())
        out['checks'] += 1
        if n > 0 and (len(absorbed) != len(msg) or any(a is not b for a, b in zip(absorbed, msg))):
            out['bad'].append({'kind': 'the XOF did not absorb exactly the input string once', 'stream': None})
        # enumerate the specification's accept patterns that are feasible on this path (normally exactly one)
        acc = [z3.ULT(tvals[i], z3.BitVecVal(KQ, 32)) for i in range(used)]
        ex.push()
        try:
            rounds = 0
            while True:
                rounds += 1
                if rounds > 40:
                    raise Unsupported('too many accept patterns on one path')
                ex.nq += 1
                rr = ex.solver.check()
                if rr == z3.unknown:
                    raise Unsupported('solver unknown while enumerating accept patterns')
                if rr != z3.sat:
                    break
                m = ex.solver.model()
                pat = [z3.is_true(m.eval(a, model_completion=True)) for a in acc]
                idx = [i for i, p in enumerate(pat) if p]
                # only the chunks up to the n-th accepted one matter to Algorithm 3: whatever an implementation squeezed ahead of
                # that is not observable (the property speaks about the returned point), so the pattern is fixed on that prefix only
                upto = (idx[n - 1] + 1) if (n > 0 and len(idx) >= n) else (0 if n == 0 else len(acc))
                fix = z3.And(*[a if p else z3.Not(a) for a, p in zip(acc[:upto], pat[:upto])]) if upto else z3.BoolVal(True)
                out['checks'] += 1
                viol = []
                # Algorithm 3 on this pattern: the first n accepted chunks, reduced
                if len(idx) < n or len(coeffs) != n:
                    viol.append(z3.BoolVal(True))
                else:
                    for k in range(n):
                        want = z3.URem(tvals[idx[k]], z3.BitVecVal(Q, 32))
                        raw = coeffs[k].f[0]
                        got = z3.BitVecVal(raw.t, 32) if raw.conc else raw.t
                        viol.append(got != want)
                        viol.append(z3.UGE(got, z3.BitVecVal(Q, 32)))
                ok, mm = ex.check(fix, z3.Or(*viol))
                if ok:
                    sv = [ex.eval_int(mm, s) for s in stream]
                    out['bad'].append({'kind': 'hash_to_point differs from Algorithm 3 on this stream', 'n': n, 'stream': sv,
                                       'got': [ex.eval_int(mm, c.f[0]) for c in coeffs], 'want': (spec.hash_to_point_from_stream(bytes(sv), n) or [None])[0]})
                    break
                if z3.is_true(fix):
                    break
                ex.assume(z3.Not(fix))
        finally:
            ex.pop()
        if len(out['samples']) < 2:
            m = ex.model()
            out['samples'].append({'n': n, 'stream_prefix': [ex.eval_int(m, s) for s in stream[:2 * used]], 'point': [ex.eval_int(m, c.f[0]) for c in coeffs]})
    ex.on_return = on_ret
    fn = P.by_key['hash_to_point']
    st = ex.start(fn, [temp_ref(Seq('arr', msg), (0, len(msg))), mkint(n, 'usize')])
    ex.explore(st)
    panics = [{'msg': p['msg'], 'site': p['site'], 'stream': [p['inputs'].get('r%d' % i, 0) for i in range(len(stream))], 'n': n} for p in ex.panics[:3]]
    asserts = sum(c[0] for c in ex.assert_sites.values())
    return {'tag': tag or 'hash_to_point n=%d, <=%d rejections%s' % (n, max_rej, (', first chunks accept=%s' % prefix) if prefix else ''), 'n': n, 'max_rej': max_rej, 'paths': ex.paths, 'queries': ex.nq, 'solver_s': ex.solver_s,
            'steps': ex.steps, 'returned': out['ret'], 'cut_beyond_bound': log['cut'], 'bad': out['bad'][:5], 'panics': panics,
            'obligations': asserts + out['checks'], 'violable': len(out['bad']) + len(panics), 'samples': out['samples'],
            'mir_hash': {'hash_to_point': fn.hash}}


def h2p_concrete_scen(msg_hex, n):
    """translator validation: the same executor and stubs, but with the concrete SHAKE-256 stream of a concrete message
    (hashlib); the result is compared with the real hash_to_point by the driver"""
    import hashlib
    P = prog()
    ex = new_exec(P)
    msgb = bytes.fromhex(msg_hex)
    stream = hashlib.shake_256(msgb).digest(2 * n + 600)
    pos = {'p': 0}

    def ov_default(ex, st, fr, args, info): return Opaque('shake', ('fresh',))
    def ov_update(ex, st, fr, args, info): return UNIT
    def ov_finalize(ex, st, fr, args, info): return Opaque('xof', (0, ()))

    def ov_read(ex, st, fr, args, info):
        buf = args[1]; k = ex.slice_len(st, buf); base = buf.rng[0] if buf.rng else 0
        cur = ex.load(st, buf.loc); e = list(cur.e)
        for j in range(k):
            e[base + j] = mkint(stream[pos['p'] + j], 'u8')
        pos['p'] += k
        ex.store(st, buf.loc, Seq(cur.kind, e))
        return UNIT
    ex.over.update({'Default::default': ov_default, 'Update::update': ov_update, 'ExtendableOutput::finalize_xof': ov_finalize, 'XofReader::read': ov_read})
    got = []
    ex.on_return = lambda e, s, rv: got.append([c.f[0].t for c in rv.f[0].e])
    st = ex.start(P.by_key['hash_to_point'], [temp_ref(Seq('arr', [mkint(b, 'u8') for b in msgb]), (0, len(msgb))), mkint(n, 'usize')])
    ex.explore(st)
    return {'tag': 'concrete', 'point': got[0] if got else None, 'paths': ex.paths, 'queries': ex.nq, 'solver_s': 0.0, 'steps': ex.steps}

"""C14 — HashToPoint equals Algorithm 3. Engine M on the real MIR of hash_to_point; the SHAKE-256 reader is an
environment stub returning a fresh symbolic byte stream; the absorb side is checked to receive exactly the input."""
import hashlib, itertools
from ..common import *
from .. import replay, spec
from ..mirsym import load_program
from ..mirsym.runner import run_jobs

MOD = 'vf.props.c14_scen'
KQ = 61445


def jobs_for(tier):
    jobs = []
    if tier == 'quick':
        cfg = [(0, 1, 0), (1, 6, 0), (2, 5, 0), (3, 3, 0), (4, 2, 0), (5, 2, 0), (6, 2, 1), (8, 1, 0), (8, 2, 2)]      # long rejection runs at n = 1, 2: a bounded retry count per coefficient shows there
    else:
        cfg = [(0, 1, 0), (1, 8, 0), (2, 6, 0), (3, 4, 0), (4, 4, 1), (5, 3, 1), (6, 3, 2), (8, 3, 3), (10, 2, 3), (12, 2, 3), (16, 2, 4), (16, 1, 0)]
    for n, r, split in cfg:
        if split == 0:
            jobs.append((MOD, 'h2p_scen', dict(n=n, max_rej=r, deadline_s=3000)))
        else:
            for pre in itertools.product((True, False), repeat=split):
                if sum(1 for b in pre if not b) > r:
                    continue
                jobs.append((MOD, 'h2p_scen', dict(n=n, max_rej=r, prefix=list(pre), deadline_s=3000)))
    return jobs


def chunks(stream):
    return [(stream[i] << 8) | stream[i + 1] for i in range(0, len(stream) - 1, 2)]


def find_message(cex_stream, n, budget=400000):
    """search a message whose SHAKE-256 stream reproduces the counterexample's essential features: the same accept /
    reject pattern over the chunks the run consumes, and the same value wherever the counterexample sits exactly on a
    boundary value (KQ-1, KQ, KQ+1, 0xffff, 0, multiples of q near the boundary)."""
    ch = chunks(cex_stream)
    pat = [c < KQ for c in ch]
    special = {i: c for i, c in enumerate(ch) if c in (KQ - 1, KQ, KQ + 1, 0xffff) }
    # how many chunks matter: up to the n-th accept of the pattern (+1 to cover off-by-one consumption)
    acc = 0; need = len(ch)
    for i, p in enumerate(pat):
        acc += p
        if acc == n:
            need = min(len(ch), i + 2); break
    for k in range(budget):
        m = b'verif-c14-%d' % k
        s = hashlib.shake_256(m).digest(2 * need)
        c2 = chunks(s)
        if all((c2[i] < KQ) == pat[i] for i in range(need)) and all(c2[i] == v for i, v in special.items() if i < need):
            return m
    return None


def spec_h2p(msg, n):
    s = hashlib.shake_256(msg).digest(2 * n + 400)
    r = spec.hash_to_point_from_stream(s, n)
    while r is None:
        s = hashlib.shake_256(msg).digest(4 * len(s)); r = spec.hash_to_point_from_stream(s, n)
    return r[0]


def critical_values(b):
    """16-bit chunk values at which the counterexample's outputs diverge from Algorithm 3 (plus the boundary values)"""
    ch = chunks(b['stream'])
    crit = set(c for c in ch if c in (KQ - 1, KQ, KQ + 1, 0xffff) or (c < KQ and c % spec.Q in (0, spec.Q - 1)))
    got, want = b.get('got') or [], b.get('want') or []
    acc = [c for c in ch if c < KQ]
    for k in range(max(len(got), len(want))):
        g = got[k] if k < len(got) else None; w = want[k] if k < len(want) else None
        if g != w:
            if k < len(acc): crit.add(acc[k])
            break
    return crit


def find_message_containing(values, nchunks=600, budget=60000):
    for k in range(budget):
        m = b'verif-c14-v-%d' % k
        c2 = chunks(hashlib.shake_256(m).digest(2 * nchunks))
        if any(c in values for c in c2):
            return m
    return None


def confirm(rep, b):
    n = b['n']
    if b.get('stream') is None:
        rep.note_inconclusive('C14 finding without a stream: %s' % b['kind']); return
    # (1) a message whose stream contains a value at which the outputs diverge, replayed at the production degrees
    crit = critical_values(b)
    if crit:
        tried = 0
        for k in range(400000):
            if tried >= 6: break
            m = b'verif-c14-v-%d' % k
            if not any(c in crit for c in chunks(hashlib.shake_256(m).digest(1400))):
                continue
            tried += 1
            for nn in (512, 1024):
                want = ','.join(map(str, spec_h2p(m, nn)))
                dev, rel = replay.both(['hash_to_point', nn, m.hex()])
                rep.replayed += 1
                if dev != want or rel != want:
                    rep.violation('hash_to_point:differs-from-algorithm-3', 'hash_to_point(%r, n=%d) differs from Algorithm 3 (%d vs %d coefficients; first difference at index %s); stream contains a critical chunk value from %s'
                                  % (m, nn, len(dev.split(',')), len(want.split(',')), next((i for i, (x, y) in enumerate(zip(dev.split(','), want.split(','))) if x != y), 'end'), sorted(crit)[:6]),
                                  {'replay_request': ['hash_to_point', nn, m.hex()], 'expected': want[:200], 'dev': dev[:200], 'release': rel[:200]})
                    return True
    # (2) a message reproducing the accept / reject pattern of the counterexample at toy n
    msg = find_message(b['stream'], n)
    if msg is None:
        # fall back: production sizes on a handful of messages that exercise rejections
        rep.note_inconclusive('no message found whose SHAKE stream matches the counterexample pattern (stream %s)' % b['stream'][:24]); return
    for nn in sorted(set([n, 512, 1024])):
        want = ','.join(map(str, spec_h2p(msg, nn)))
        dev, rel = replay.both(['hash_to_point', nn, msg.hex()])
        rep.replayed += 1
        if dev != want or rel != want:
            rep.violation('hash_to_point:differs-from-algorithm-3', 'hash_to_point(%r, n=%d) = %s..., Algorithm 3 gives %s... (solver stream: %s)'
                          % (msg, nn, dev[:60], want[:60], b['stream'][:16]),
                          {'replay_request': ['hash_to_point', nn, msg.hex()], 'expected': want, 'dev': dev, 'release': rel})
            return True
    rep.note_inconclusive('C14 counterexample did not reproduce natively with message %r (n=%d)' % (msg, n))
    return False


def check(tier):
    rep = Report('C14', tier)
    rep.functions = ['polynomial::hash_to_point', 'Felt::new']
    rep.bounds = ['quick: n <= 8 with <= 1..6 rejections (6 at n = 1, 5 at n = 2, 3 at n = 3, 1..2 beyond); thorough: n <= 16, <= 2..8 rejections (every accept/reject interleaving inside the bound)',
                  'the XOF output is a fully symbolic byte stream (all 2^(16(n+r)) streams per configuration)']
    rep.outside = ['n = 512 / 1024 as loop trip counts (the function does not depend on n other than through the loop exit); more rejections than the bound',
                   'SHAKE-256 itself (sha3 crate) is trusted: the stub returns arbitrary bytes']
    rep.trusted = ['mirsym summaries (Vec::{new,len,push}, array indexing)', 'environment stubs: Shake256::default/update/finalize_xof/XofReader::read', 'z3']
    rep.assumptions = ['oracle: Algorithm 3 (big-endian 16-bit chunks, reject >= 61445, reduce mod 12289) written in vf/props/c14_scen.py over the same symbolic stream']
    run(rep, tier)
    if rep.violations:
        rep.inconclusive = []              # a replayed violation decides the run; unreproduced siblings are not needed
    return rep.finish()


def run(rep, tier):
    prog, secs = load_program(fresh=True)
    jobs = jobs_for(tier)
    hashes = {}
    results = run_jobs(jobs, workers=NCPU, order_seed=seed(), on_result=lambda job, r: handle(rep, job, r, hashes))
    rep.extra.setdefault('mir_hashes', {}).update(hashes)
    if rep.violations:
        return          # a replayed violation decides the run; the remaining scenarios were cancelled
    validate(rep)


def handle(rep, job, r, hashes):
    """absorb one scenario result; returns True when a violation has been replayed (stops the run)"""
    if True:
        if r.get('error'):
            rep.oblige(1, ok=False); rep.note_inconclusive('%s: %s' % (job[2], r['error'])); return False
        hashes.update(r.get('mir_hash', {}))
        rep.states += r['paths']; rep.transitions += r['steps']; rep.queries += r['queries']; rep.solver_s += r['solver_s']
        rep.oblige(r['obligations'] - r['violable']); rep.oblige(r['violable'], ok=False)
        rep.parts.setdefault('scenarios', []).append({'scenario': r['tag'], 'paths': r['paths'], 'returned': r['returned'], 'cut_beyond_bound': r['cut_beyond_bound'],
                                                      'obligations': r['obligations'], 'wall_s': round(r['wall_s'], 1)})
        if r['returned'] == 0 and not r['bad'] and not r['panics'] and not (job[2].get('prefix')):
            rep.note_inconclusive('vacuity: %s has no returning path' % r['tag'])
        for s in r['samples'][:1]:
            rep.sample({'scenario': r['tag'], 'returning_path_model': s})
        for b in r['bad'] + [{'n': p['n'], 'stream': p['stream'], 'kind': 'panic ' + p['msg']} for p in r['panics']]:
            if rep.violations or rep.known_hit:
                break                      # one replayed counterexample per run is enough; the rest are counted as undischarged
            confirm(rep, b)
    return bool(rep.violations)


def validate(rep):
    # translator validation: concrete runs of the same executor + stubs on real SHAKE streams vs the real function
    val = [(MOD, 'h2p_concrete_scen', dict(msg_hex=m.hex(), n=n)) for m in (b'', b'verif-c14-validate', b'\x00' * 41) for n in (16, 512)]
    for job, r in zip(val, run_jobs(val, workers=6)):
        if r.get('error') or r.get('point') is None:
            rep.note_inconclusive('translator validation could not run: %s' % r.get('error')); continue
        got = replay.call1(['hash_to_point', job[2]['n'], job[2]['msg_hex'] or '-'])
        if got == ','.join(map(str, r['point'])) and r['point'] == spec_h2p(bytes.fromhex(job[2]['msg_hex']), job[2]['n']):
            rep.replayed += 1
        else:
            rep.note_inconclusive('translator validation failed for hash_to_point(%s, %d): mirsym %s..., real code %s...' % (job[2]['msg_hex'][:16], job[2]['n'], r['point'][:4], got[:40]))

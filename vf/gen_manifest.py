"""Regenerates MANIFEST.json from the tables below (single source of truth for the interface)."""
import json

BASELINE_OFF = ("cd /repo && cargo nextest run --workspace --no-fail-fast --tool-config-file pb:/w/lib/nextest.toml --profile pb "
                "--test-threads 8 --offline || (cd /repo && cargo test --workspace --no-fail-fast --offline)")

CLAIMED = {
    'C12': dict(
        engine='K (Kani/CBMC)',
        technique='bounded model checking of the compiled Felt operators with Kani/CBMC (SAT), all operands symbolic; exhaustive over the finite domains; counterexamples replayed natively',
        text='Every Felt operator (new, +, -, neg, *, assign forms, inverse_or_zero, balanced_value, From<usize>) is compiled by Kani and decided by CBMC/cadical '
             'against a 64-bit rem_euclid oracle for ALL canonical operands / all i16 inputs - the domains are finite, so the verdict is exhaustive, not sampled. '
             'Inversion is split into 13 value slices run in parallel. Multiplication is decided a second way on the MIR (engine M: product cut point, cvc5 integer encoding of bit-vectors, z3) - the deciding check when CBMC gives no verdict on a division-free reduction. '
             'Batch inversion: the generic method on engine S (log domain); a Felt-specific override is detected and exercised natively (INCONCLUSIVE unless it deviates).',
        note='Trusted: Kani 0.68 + CBMC 6.11 model of rustc dev-profile codegen; the oracle (i64 rem_euclid) in /verif/hooks/falcon_field.rs. Operands are assumed canonical (<q), '
             'which is what every constructor establishes and c12_new_all_i16 checks.',
        design='DESIGN.md §4 C12'),
    'C07': dict(
        engine='M (mirsym over rustc MIR + z3)',
        technique='path-wise symbolic execution of the MIR of compress/decompress with z3 (QF_BV): every feasible path of the real code, buffers and coefficients symbolic; per-path bit-vector equality against Algorithms 17/18; counterexamples replayed natively',
        text='decompress is explored on fully symbolic buffers (all bytes) for small (n, L), on structured buffers that reach 95/256/512-zero unary runs, and (thorough) at the production sizes with a '
             'concrete prefix and symbolic tail; on every accepting path the input must be bit-for-bit the reference encoding of the returned vector (canonicity) and every MIR assert / library panic '
             'site must be unreachable. compress is run for every unary structure in the stated sets with signs and low bits symbolic, compared bit-for-bit with Algorithm 17, and its symbolic output '
             'is fed to the real decompress (round trip). Verdicts are solver verdicts over all inputs inside the bounds, not samples.',
        note='Bounds in evidence.bounds; trusted: mirsym library summaries (BitVec/Vec/iterators/div_mod_floor), z3, the nightly MIR dump standing for the stable build. Oracle written from the specification in vf/spec.py.',
        design='DESIGN.md §4 C07'),
    'C14': dict(
        engine='M (mirsym over rustc MIR + z3)',
        technique='path-wise symbolic execution of the MIR of hash_to_point with the SHAKE-256 reader stubbed by a fully symbolic byte stream; per-path equality with Algorithm 3 decided by z3; counterexamples replayed natively on a message found by search',
        text='Every accept/reject interleaving of the rejection loop inside the bound (n <= 8 quick / 16 thorough, up to 6 / 8 rejected chunks at n = 1, fewer at larger n) is explored with ALL XOF streams symbolic; on each path the returned '
             'coefficients and their number must equal Algorithm 3 on that stream (the first n accepted chunks, reduced; squeezing the XOF ahead of need is not observable and allowed), every coefficient < q, and the XOF must have absorbed exactly the input once.',
        note='SHAKE-256 (sha3 crate) is trusted: its output is modelled as arbitrary bytes (sound over-approximation). n = 512/1024 differ only in loop trip count and are outside the bound.',
        design='DESIGN.md §4 C14'),
    'C02': dict(
        engine='M (mirsym over rustc MIR + z3), composed with C07/C11/C12/C14',
        technique='path-wise symbolic execution of the MIR of verify::<N> (toy N with the real Falcon-512/1024 parameters) with z3: structural check of the NTT wiring, s1 as a free canonical vector, squares abstracted; boundary witnesses required; counterexamples rebuilt as real Falcon-512/1024 (msg, sig, pk) triples and replayed natively',
        text='The acceptance predicate of verify (bound constants, comparison operator, centred reduction, inclusion of s2, rejection on decode failure, operands handed to the NTT pipeline) is decided for ALL (c, h, s2) '
             'at toy degrees with the real parameter sets, and with the real decompress composed in on fully symbolic short signatures; norm = bound-1, bound, bound+1 must be reachable. Composition with C07 (decoding), '
             'C14 (hash), C11 (NTT product), C12 (field) gives the statement for the production degrees on paper.',
        note='Not end-to-end at N = 512/1024. Trusted: mirsym summaries, z3, the NTT contract (C11), SHAKE-256. The bijection argument c -> c - s2*h (s1 free) and the square abstraction are stated in DESIGN §8.2.',
        design='DESIGN.md §4 C02, §8.2'),
    'C03': dict(
        engine='M (mirsym over rustc MIR + z3)',
        technique='path-wise symbolic execution of the MIR (overflow checks on) of decompress, hash_to_point, the three from_bytes parsers and verify::<N>: every assert terminator and every modelled library panic is a z3 obligation over symbolic bytes; violations replayed natively in dev and release',
        text='Panic-freedom obligations on the real MIR: decompress on all buffers within C07\'s bounds; PublicKey/SecretKey/Signature::from_bytes with every byte symbolic at the accepted and at wrong lengths; '
             'verify at toy N with the real parameters; hash_to_point (verify\'s first step) over a fully symbolic XOF stream at n <= 8 with up to 6 rejected chunks. Each obligation is discharged by the solver for all inputs in the bound or yields a concrete panicking input. Felt multiplication is panic-free for all operand pairs (engine M with cvc5), and verify\'s accumulators are wide enough for the heaviest signature of every length the parser accepts.',
        note='SecretKey::from_bytes\' floating-point tail (FFT, ffLDL) is outside; panics inside dependencies beyond the modelled ones (index, unwrap, try_into) are outside.',
        design='DESIGN.md §4 C03, §8.2'),
    'C05': dict(
        engine='M (mirsym over rustc MIR + z3)',
        technique='symbolic execution of to_bytes then from_bytes (real MIR) on symbolic objects of the representable set; sizes and field-wise equality decided by z3; claimed at the codec layer',
        text='For every public key with h_i < q, every signature (any salt, any compressed part of the right length) and every secret key with f, g, F inside their field ranges: to_bytes has the variant\'s constant length and '
             'from_bytes(to_bytes(x)) = Ok(x) field for field. Quick: coefficient windows symbolic; thorough: all windows.',
        note='Codec layer only: "every generated key is representable" and "the decoded key signs verifiable signatures" need keygen/sign from a seed (floating point, CSPRNG) and are outside this family (DESIGN §4 C05).',
        design='DESIGN.md §4 C05'),
    'C06': dict(
        engine='M (mirsym over rustc MIR + z3)',
        technique='symbolic execution of from_bytes then to_bytes (real MIR) with EVERY byte of the production-size buffers symbolic; per accepting path a bit-vector equality to_bytes(from_bytes(b)) = b decided by z3 (cone-of-influence queries); wrong lengths must have no accepting path',
        text='Strictness is decided as: whenever from_bytes accepts b, re-encoding reproduces b bit for bit - over all 2^(8L) buffers of the accepted length for the three types and both variants; lengths 0, 1, 2, L-1, L+1 and the '
             'other variant\'s length must be rejected on every path; the secret-key field decoder is checked against its contract for all widths and bit patterns, and no accepting secret-key path may hold the reserved minimum value in any field.',
        note='Secret keys: quick tier keeps header + nine 40-byte windows symbolic, thorough every byte. G and the LDL tree are outside (recomputed by floating-point code). Trusted: mirsym summaries, z3.',
        design='DESIGN.md §4 C06'),
    'C09': dict(
        engine='K (Kani/CBMC) + M (mirsym + z3)',
        technique='Kani/CBMC bounded model checking of base_sampler (all 2^72 inputs vs the RCDT of the specification) and of ber_exp totality; mirsym: term equality of approx_exp with the specification\'s loop, ber_exp comparison logic on every path, sampler_z loop body (two trips) against Algorithm 15',
        text='Building blocks: base_sampler equals #{i: u < RCDT[i]} for every input; ber_exp never panics for x in [0,1024), ccs in [1/2,1] and every 7-byte string; approx_exp\'s result term equals ApproxExp of the specification for all x, ccs; ber_exp returns [7 random bytes < top of z] for all x, ccs, bytes and any approx_exp value; sampler_z draws 9/1/7 bytes per trip, calls BerExp on the specified (x, ccs) and returns z + floor(mu).',
        note='Claimed for the building blocks and totality only. NOT decided: the distribution of the output, termination for every byte stream, more than two loop trips, |mu| > 2^14, underflow-freedom inside approx_exp\'s polynomial evaluation.',
        design='DESIGN.md §4 C09, §8.2'),
    'C11': dict(
        engine='K (Kani/CBMC) + S (SymField + z3) + M (mirsym)',
        technique='Kani: twiddle tables and n^-1 constants with symbolic index (exhaustive); engine S: the crate\'s generic fft/ifft/split/merge run on symbolic terms, QF_LIA decided by z3 for all vectors in Z_q^n; mirsym: FastFft glue per n',
        text='Tables: every entry is psi^bitrev(i) for a primitive 2048-th root, inverse table entries are inverses, n*NINV_n = 1. Transforms: ifft(fft(a)) = a, fft(ifft(a)) = a, merge(split(F)) = F, split(fft(a)) = (fft(a_even), fft(a_odd)) '
             'and ifft(fft(a) .* fft(X^j)) = X^j*a for ALL a in Z_q^n (n <= 64 / 16 quick, 256 / 64 thorough). Glue: each n in {1..1024} hands the right table and constant to the generic code. Product clause: hadamard_mul returns one canonical element per slot for all operand vectors (real MIR) and Felt multiplication is exact (engine M, cvc5).',
        note='Fully symbolic transforms at n = 512/1024 exceed z3\'s memory: those sizes are covered structurally (size-independent butterflies + every table entry + every size-specific constant/arm). Product for arbitrary b follows from monomials by linearity (C12) - an argument on paper.',
        design='DESIGN.md §4 C11'),
    'C13': dict(
        engine='K (Kani/CBMC) + S (SymField + z3) + M (mirsym)',
        technique='Kani: recurrences over all 1024 complex table entries (symbolic index); engine S: butterfly identities of the shared generic code over Z_q; mirsym: Complex64 FastFft glue per n compared with exp(i*pi*bitrev(j)/1024)',
        text='Reduced level: every table entry is pinned by T[2j]^2 = T[j], T[2j+1] = i*T[2j] (1e-15); the generic split/merge/fft/ifft index and twiddle structure is proved over Z_q; for each n the Complex64 impl passes the table / its conjugate / 1/n.',
        note='The 2^-30 accuracy bound itself is NOT decided (rounding-error accumulation over 10 layers is beyond bit-precise float solving). Realistic breakages (bad entry, wrong conjugate, swapped butterfly, wrong scaling) are covered.',
        design='DESIGN.md §4 C13'),
}

NOT_APPLICABLE = {
    'C01': 'sign = complex FFTs of size 512/1024 + ffSampling recursion over f64 + trapdoor algebra; no engine here can execute it symbolically (DESIGN §5)',
    'C04': 'quantifies over seeds through ChaCha12 -> rejection sampler -> BigInt xgcd recursion -> float Babai; not encodable in bounds that mean anything (DESIGN §5)',
    'C08': 'freshness of an OS-seeded CSPRNG across call histories; the only sound solver model of the generator (arbitrary bytes) makes the claim unprovable by construction (DESIGN §5)',
    'C10': 'statistical statement about output distributions; solvers decide satisfiability, not statistics (DESIGN §5)',
    'C15': '2-safety of the same un-encodable keygen pipeline as C04; seed sensitivity is a cryptographic property of ChaCha (DESIGN §5)',
    'C16': 'needs the PQClean reference implementation as oracle (absent, C behind FFI) and an end-to-end sign/verify exchange (DESIGN §5)',
    'C17': 'float quotient (FFT, division, rounding) + modular/BigInt algebra at n up to 1024; even n=2 of the modular half is beyond the SAT back end (DESIGN §5)',
}
PENDING = {}


def build():
    checks = []
    for pid in sorted(CLAIMED):
        c = CLAIMED[pid]
        checks.append({
            'property_id': pid,
            'quick_cmd': './check %s --tier quick' % pid,
            'thorough_cmd': './check %s --tier thorough' % pid,
            'evidence_file': '/verif/evidence/%s.json' % pid,
            'replay_cmd_template': './check %s --replay {path}' % pid,
            'engine': c['engine'],
            'level_claimed': {'category': 'model_checking', 'text': c['text'], 'design_ref': c['design']},
            'level_note': c['note'],
            'technique': c['technique'],
        })
    na = [{'property_id': k, 'reason': v} for k, v in sorted({**NOT_APPLICABLE, **PENDING}.items()) if k not in CLAIMED]
    m = {
        'version': 1,
        'setup_cmd': './setup.sh',
        'hooks': {
            'guard': 'cfg(any(kani, aszepieniec_falcon_rust_verif))',
            'enable': 'RUSTFLAGS="--cfg aszepieniec_falcon_rust_verif" for the native replay driver and engine S; cargo kani sets cfg(kani); MIR for engine M is dumped with the guard OFF',
            'baseline_off_cmd': BASELINE_OFF,
            'source_commits': HOOK_COMMITS,
            'add_only': True,
        },
        'engines': [
            {'name': 'K', 'path': '/verif/vf/kani.py + /verif/hooks/*.rs', 'serves_properties': ['C12', 'C11', 'C13', 'C09'],
             'kind_free_text': 'Kani 0.68 / CBMC 6.11 bounded model checking of harnesses compiled into the crate behind the cfg guard'},
            {'name': 'M', 'path': '/verif/vf/mirsym', 'serves_properties': ['C02', 'C03', 'C05', 'C06', 'C07', 'C14', 'C09'],
             'kind_free_text': 'path-wise symbolic executor for rustc MIR (dumped from /repo on every run) over z3, with library summaries'},
            {'name': 'S', 'path': '/verif/hooks/symfield.rs', 'serves_properties': ['C11', 'C13', 'C12'],
             'kind_free_text': 'the crate\'s generic butterflies instantiated on a symbolic field type; emits QF_LIA scripts decided by z3'},
            {'name': 'R', 'path': '/verif/replay', 'serves_properties': sorted(CLAIMED),
             'kind_free_text': 'native replay driver (dev+release) used to confirm every counterexample before it is reported'},
        ],
        'checks': checks,
        'not_applicable': na,
        'notes': 'Exit codes: 0 held within bounds, 1 VIOLATION (replayed natively), 2 inconclusive (never reported as success). '
                 'Known findings: /verif/known_findings.json. Seeded breakages and which check catches which: /verif/seeded + DESIGN.md §8.',
    }
    return m


HOOK_COMMITS = ['7e95cf1']
FIX_COMMITS = ['56bfc38', '44525a6', '714f854', 'b655c1b', '0af0b18', 'df57fa1']

if __name__ == '__main__':
    json.dump(build(), open('/verif/MANIFEST.json', 'w'), indent=1)
    print('MANIFEST.json written: claimed', sorted(CLAIMED), 'n/a', len(NOT_APPLICABLE) + len([p for p in PENDING if p not in CLAIMED]))

"""Regenerates MANIFEST.json from the tables below (single source of truth for the interface)."""
import json

BASELINE_OFF = ("cd /repo && cargo nextest run --workspace --no-fail-fast --tool-config-file pb:/w/lib/nextest.toml --profile pb "
                "--test-threads 8 --offline || (cd /repo && cargo test --workspace --no-fail-fast --offline)")

CLAIMED = {
    'C12': dict(
        engine='K (Kani/CBMC)',
        technique='bounded model checking of the compiled Felt operators with Kani/CBMC (SAT), all operands symbolic; exhaustive over the finite domains; counterexamples replayed natively',
        text='Every Felt operator (new, +, -, neg, *, assign forms, inverse_or_zero, balanced_value, From<usize>) is compiled by Kani and decided by CBMC/cadical '
             'against a 64-bit rem_euclid oracle for ALL canonical operands / all i16 inputs - the domains are finite, so the verdict is exhaustive, not sampled. '
             'Inversion is split into 13 value slices run in parallel.',
        note='Trusted: Kani 0.68 + CBMC 6.11 model of rustc dev-profile codegen; the oracle (i64 rem_euclid) in /verif/hooks/falcon_field.rs. Operands are assumed canonical (<q), '
             'which is what every constructor establishes and c12_new_all_i16 checks.',
        design='DESIGN.md §4 C12'),
    'C07': dict(
        engine='M (mirsym over rustc MIR + z3)',
        technique='path-wise symbolic execution of the MIR of compress/decompress with z3 (QF_BV): every feasible path of the real code, buffers and coefficients symbolic; per-path bit-vector equality against Algorithms 17/18; counterexamples replayed natively',
        text='decompress is explored on fully symbolic buffers (all bytes) for small (n, L), on structured buffers that reach 95/256/512-zero unary runs, and (thorough) at the production sizes with a '
             'concrete prefix and symbolic tail; on every accepting path the input must be bit-for-bit the reference encoding of the returned vector (canonicity) and every MIR assert / library panic '
             'site must be unreachable. compress is run for every unary structure in the stated sets with signs and low bits symbolic, compared bit-for-bit with Algorithm 17, and its symbolic output '
             'is fed to the real decompress (round trip). Verdicts are solver verdicts over all inputs inside the bounds, not samples.',
        note='Bounds in evidence.bounds; trusted: mirsym library summaries (BitVec/Vec/iterators/div_mod_floor), z3, the nightly MIR dump standing for the stable build. Oracle written from the specification in vf/spec.py.',
        design='DESIGN.md §4 C07'),
    'C14': dict(
        engine='M (mirsym over rustc MIR + z3)',
        technique='path-wise symbolic execution of the MIR of hash_to_point with the SHAKE-256 reader stubbed by a fully symbolic byte stream; per-path equality with Algorithm 3 decided by z3; counterexamples replayed natively on a message found by search',
        text='Every accept/reject interleaving of the rejection loop inside the bound (n <= 8 quick / 16 thorough, <= 1..4 rejections) is explored with ALL XOF streams symbolic; on each path the returned '
             'coefficients, their number and the number of consumed chunks must equal Algorithm 3 on that stream, every coefficient < q, and the XOF must have absorbed exactly the input once.',
        note='SHAKE-256 (sha3 crate) is trusted: its output is modelled as arbitrary bytes (sound over-approximation). n = 512/1024 differ only in loop trip count and are outside the bound.',
        design='DESIGN.md §4 C14'),
}

NOT_APPLICABLE = {
    'C01': 'sign = complex FFTs of size 512/1024 + ffSampling recursion over f64 + trapdoor algebra; no engine here can execute it symbolically (DESIGN §5)',
    'C04': 'quantifies over seeds through ChaCha12 -> rejection sampler -> BigInt xgcd recursion -> float Babai; not encodable in bounds that mean anything (DESIGN §5)',
    'C08': 'freshness of an OS-seeded CSPRNG across call histories; the only sound solver model of the generator (arbitrary bytes) makes the claim unprovable by construction (DESIGN §5)',
    'C10': 'statistical statement about output distributions; solvers decide satisfiability, not statistics (DESIGN §5)',
    'C15': '2-safety of the same un-encodable keygen pipeline as C04; seed sensitivity is a cryptographic property of ChaCha (DESIGN §5)',
    'C16': 'needs the PQClean reference implementation as oracle (absent, C behind FFI) and an end-to-end sign/verify exchange (DESIGN §5)',
    'C17': 'float quotient (FFT, division, rounding) + modular/BigInt algebra at n up to 1024; even n=2 of the modular half is beyond the SAT back end (DESIGN §5)',
}
PENDING = {k: 'check not built yet in this revision (planned, see DESIGN §4); not claimed until it runs end to end' for k in ['C02', 'C03', 'C05', 'C06', 'C09', 'C11', 'C13']}


def build():
    checks = []
    for pid in sorted(CLAIMED):
        c = CLAIMED[pid]
        checks.append({
            'property_id': pid,
            'quick_cmd': './check %s --tier quick' % pid,
            'thorough_cmd': './check %s --tier thorough' % pid,
            'evidence_file': '/verif/evidence/%s.json' % pid,
            'replay_cmd_template': './check %s --replay {path}' % pid,
            'engine': c['engine'],
            'level_claimed': {'category': 'model_checking', 'text': c['text'], 'design_ref': c['design']},
            'level_note': c['note'],
            'technique': c['technique'],
        })
    na = [{'property_id': k, 'reason': v} for k, v in sorted({**NOT_APPLICABLE, **PENDING}.items()) if k not in CLAIMED]
    m = {
        'version': 1,
        'setup_cmd': './setup.sh',
        'hooks': {
            'guard': 'cfg(any(kani, aszepieniec_falcon_rust_verif))',
            'enable': 'RUSTFLAGS="--cfg aszepieniec_falcon_rust_verif" for the native replay driver and engine S; cargo kani sets cfg(kani); MIR for engine M is dumped with the guard OFF',
            'baseline_off_cmd': BASELINE_OFF,
            'source_commits': HOOK_COMMITS,
            'add_only': True,
        },
        'engines': [
            {'name': 'K', 'path': '/verif/vf/kani.py + /verif/hooks/*.rs', 'serves_properties': ['C12', 'C11', 'C13', 'C09'],
             'kind_free_text': 'Kani 0.68 / CBMC 6.11 bounded model checking of harnesses compiled into the crate behind the cfg guard'},
            {'name': 'M', 'path': '/verif/vf/mirsym', 'serves_properties': ['C02', 'C03', 'C05', 'C06', 'C07', 'C14', 'C09'],
             'kind_free_text': 'path-wise symbolic executor for rustc MIR (dumped from /repo on every run) over z3, with library summaries'},
            {'name': 'S', 'path': '/verif/hooks/symfield.rs', 'serves_properties': ['C11', 'C13', 'C12'],
             'kind_free_text': 'the crate\'s generic butterflies instantiated on a symbolic field type; emits QF_LIA scripts decided by z3'},
            {'name': 'R', 'path': '/verif/replay', 'serves_properties': sorted(CLAIMED),
             'kind_free_text': 'native replay driver (dev+release) used to confirm every counterexample before it is reported'},
        ],
        'checks': checks,
        'not_applicable': na,
        'notes': 'Exit codes: 0 held within bounds, 1 VIOLATION (replayed natively), 2 inconclusive (never reported as success). '
                 'Known findings: /verif/known_findings.json. Seeded breakages and which check catches which: /verif/seeded + DESIGN.md §8.',
    }
    return m


HOOK_COMMITS = ['7e95cf1']
FIX_COMMITS = ['56bfc38', '44525a6', '714f854', 'b655c1b']

if __name__ == '__main__':
    json.dump(build(), open('/verif/MANIFEST.json', 'w'), indent=1)
    print('MANIFEST.json written: claimed', sorted(CLAIMED), 'n/a', len(NOT_APPLICABLE) + len([p for p in PENDING if p not in CLAIMED]))

import argparse, importlib, os, sys, threading
sys.path.insert(0, '/verif')
sys.setrecursionlimit(1000000)
threading.stack_size(1 << 29)


def main():
    ap = argparse.ArgumentParser()
    ap.add_argument('prop')
    ap.add_argument('--tier', default=os.environ.get('VERIF_TIER', 'quick'), choices=['quick', 'thorough'])
    ap.add_argument('--replay')
    a = ap.parse_args()
    from vf.common import Inconclusive, _install_reaper
    _install_reaper()          # main thread: SIGTERM / exit also ends solver and cargo-kani process groups started by the check
    rc = [2]

    def body():
        try:
            if a.replay:
                from vf import replaycmd
                rc[0] = replaycmd.replay_file(a.replay)
                return
            mod = importlib.import_module('vf.props.' + a.prop.lower())
            rc[0] = mod.check(a.tier)
        except Inconclusive as e:
            print('INCONCLUSIVE: %s' % e)
            rc[0] = 2
        except Exception as e:      # machinery failure (e.g. a MIR construct / library call without a rule): never a pass, never a violation
            import traceback
            print('INCONCLUSIVE: property=%s machinery error %s: %s' % (a.prop, type(e).__name__, str(e)[:300]))
            traceback.print_exc()
            rc[0] = 2
    t = threading.Thread(target=body)
    t.start()
    t.join()
    sys.exit(rc[0])


main()

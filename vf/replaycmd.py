"""./check <id> --replay <counterexample.json>: push a recorded counterexample through the real code again (dev and release)."""
import json
from . import replay


def replay_file(path):
    d = json.load(open(path))
    cex = d.get('cex', {})
    req = cex.get('replay_request')
    print('property %s, finding key %s' % (d.get('property'), d.get('key')))
    print('what: %s' % d.get('what'))
    if not req or any(isinstance(x, str) and x.endswith('...') for x in req):
        print('this counterexample stores a shortened request (see `construction` / `what`); it cannot be replayed from the file alone')
        return 2
    dev, rel = replay.both(req)
    exp = cex.get('expected', cex.get('expect'))
    print('request : %s' % ' '.join(str(x)[:120] for x in req))
    print('dev     : %s' % dev[:300])
    print('release : %s' % rel[:300])
    print('expected: %s' % (str(exp)[:300] if exp is not None else '(no panic)'))
    bad = dev.startswith('PANIC') or rel.startswith('PANIC') or (exp is not None and exp != 'no panic' and (dev != str(exp) or rel != str(exp)))
    if bad:
        print('VIOLATION property=%s replay=%s' % (d.get('property'), path))
        return 1
    print('does not reproduce on the current tree')
    return 0

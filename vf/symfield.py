"""Driver for engine S: ask the instrumented crate (via the replay binary) to emit a QF_LIA script by running the real
generic butterflies on symbolic terms, then decide it with z3 4.8.12 (/usr/bin/z3); cross-check with z3-new on small sizes."""
import os, re, subprocess, time
from .common import *
from . import replay

SMT = os.path.join(BUILD, 'smt')
Z3_OLD = '/usr/bin/z3'
Z3_NEW = 'z3-new'


def emit(kind, field, n, j=0, name=None):
    os.makedirs(SMT, exist_ok=True)
    path = os.path.join(SMT, name or '%s_%s_%d_%d.smt2' % (kind, field, n, j))
    if kind == 'batch':
        r = replay.call1(['symbatch', n, j, path])
    else:
        r = replay.call1(['symfield', kind, field, n, j, path])
    if r != 'written':
        raise Inconclusive('engine S could not emit %s %s n=%d: %s' % (kind, field, n, r))
    return path


def solve(path, extra='', timeout=600, solver=Z3_OLD, want_model=False, mem_mb=24000):
    """-> (verdict in {'sat','unsat','unknown','timeout','error'}, seconds, model dict or None)"""
    txt = open(path).read()
    q = txt + extra + '(check-sat)\n' + ('(get-model)\n' if want_model else '')
    qp = path + '.q%d' % (abs(hash(extra)) % 100000)
    open(qp, 'w').write(q)
    t0 = time.time()
    try:
        p = subprocess.run('ulimit -v %d; %s -T:%d %s' % (mem_mb * 1024, solver, timeout, qp), shell=True, stdout=subprocess.PIPE, stderr=subprocess.STDOUT, text=True, timeout=timeout + 30)
        out = p.stdout
    except subprocess.TimeoutExpired:
        return 'timeout', time.time() - t0, None
    finally:
        try: os.remove(qp)
        except OSError: pass
    dt = time.time() - t0
    if '(error' in out:
        return 'error', dt, {'raw': out[:500]}
    first = out.strip().split('\n')[0].strip() if out.strip() else ''
    if first == 'unsat':
        return 'unsat', dt, None
    if first == 'sat':
        model = {}
        if want_model:
            for m in re.finditer(r'\(define-fun (x\d+|e\d+) \(\) Int\s+(\(- \d+\)|\d+)\)', out):
                v = m.group(2)
                model[m.group(1)] = -int(v[3:-1]) if v.startswith('(') else int(v)
        return 'sat', dt, model
    if first in ('unknown', 'timeout'):
        return 'timeout' if 'timeout' in out else 'unknown', dt, None
    return 'error', dt, {'raw': out[:500]}


def unit_extra(n, j, val=1):
    return ''.join('(assert (= x%d %d))\n' % (i, val if i == j else 0) for i in range(n))

"""Shared plumbing: paths, subprocess helpers, evidence files, known findings, violation reporting."""
import hashlib, json, os, subprocess, sys, time

VERIF = '/verif'
# VERIF_REPO / VERIF_BUILD exist only so that seeded-breakage trials can run against a scratch worktree in parallel
# with development; every registered check runs with the defaults (/repo, /verif/.build).
REPO = os.environ.get('VERIF_REPO', '/repo')
CRATE = os.path.join(REPO, 'falcon-rust')
BUILD = os.environ.get('VERIF_BUILD', '/verif/.build')
# trials against a scratch tree must not overwrite the evidence / counterexamples of /repo
EVID = os.environ.get('VERIF_EVID') or ('/verif/evidence' if REPO == '/repo' else os.path.join(BUILD, 'evidence'))
CEX = os.environ.get('VERIF_CEX') or ('/verif/counterexamples' if REPO == '/repo' else os.path.join(BUILD, 'counterexamples'))
GUARD = 'aszepieniec_falcon_rust_verif'
NCPU = min(16, os.cpu_count() or 4)

EXIT_OK, EXIT_VIOLATION, EXIT_INCONCLUSIVE = 0, 1, 2


def env_offline(extra=None):
    e = dict(os.environ)
    e['CARGO_NET_OFFLINE'] = 'true'
    e.pop('RUSTFLAGS', None)
    if extra:
        e.update(extra)
    return e


_LIVE = set()
_REAPER = [False]


def _install_reaper():
    """children started by run() live in their own process groups; if this process ends or is terminated they are killed too"""
    if _REAPER[0]:
        return
    _REAPER[0] = True
    import atexit, signal

    def reap(*a):
        for pid in list(_LIVE):
            try:
                os.killpg(pid, signal.SIGKILL)
            except Exception:
                pass
        if a:          # called as a signal handler
            os._exit(143)
    atexit.register(reap)
    try:
        signal.signal(signal.SIGTERM, reap)
    except ValueError:
        pass           # not the main thread: atexit still applies


def run(cmd, timeout=None, env=None, cwd=None, stdin=None):
    """returns (rc, stdout+stderr, seconds); rc = -9 on timeout. The command runs in its own process group and the whole group
    is killed on timeout (cargo-kani's cbmc children otherwise survive their parent and keep a core busy for hours)."""
    import signal
    t0 = time.time()
    _install_reaper()
    p = subprocess.Popen(cmd, shell=isinstance(cmd, str), cwd=cwd, env=env or env_offline(), stdin=subprocess.PIPE if stdin is not None else None,
                         stdout=subprocess.PIPE, stderr=subprocess.STDOUT, text=True, start_new_session=True)
    _LIVE.add(p.pid)
    try:
        out, _ = p.communicate(input=stdin, timeout=timeout)
        _LIVE.discard(p.pid)
        return p.returncode, out, time.time() - t0
    except subprocess.TimeoutExpired:
        _LIVE.discard(p.pid)
        try:
            os.killpg(p.pid, signal.SIGKILL)
        except (ProcessLookupError, PermissionError):
            p.kill()
        try:
            out, _ = p.communicate(timeout=30)
        except Exception:
            out = ''
        return -9, out or '', time.time() - t0


def seed():
    try:
        return int(os.environ.get('VERIF_SEED', '0'))
    except ValueError:
        return 0


class Inconclusive(Exception):
    """machinery could not decide (solver unknown/timeout, unsupported construct, non-reproducing cex)"""


# ---------------------------------------------------------------- known findings
def load_known():
    p = os.path.join(VERIF, 'known_findings.json')
    if not os.path.exists(p):
        return []
    return json.load(open(p))['findings']


class Report:
    """Collects obligations, violations, evidence for one property run."""

    def __init__(self, pid, tier):
        self.pid, self.tier = pid, tier
        self.t0 = time.time()
        self.obligations = 0
        self.discharged = 0
        self.queries = 0
        self.solver_s = 0.0
        self.states = 0
        self.transitions = 0
        self.replayed = 0
        self.samples = []
        self.assumptions = []
        self.functions = []
        self.bounds = []
        self.outside = []
        self.trusted = []
        self.violations = []   # dict(key, what, replay_path)
        self.known_hit = []
        self.inconclusive = []
        self.parts = {}
        self.extra = {}
        self.known = [k for k in load_known() if k['property'] == pid]

    # -- bookkeeping
    def oblige(self, n=1, ok=True):
        self.obligations += n
        if ok:
            self.discharged += n

    def sample(self, s, cap=12):
        if len(self.samples) < cap:
            self.samples.append(s)

    def note_inconclusive(self, what):
        self.inconclusive.append(what)
        print('INCONCLUSIVE: property=%s %s' % (self.pid, what), flush=True)

    def violation(self, key, what, cex):
        """key: role/site identifier used to match known findings (`known` entries list keys).
        cex: JSON-serialisable counterexample (must already be replayed natively)."""
        for k in self.known:
            if k.get('status', 'known') == 'known' and k['key'] == key:
                if key not in [x[0] for x in self.known_hit]:
                    self.known_hit.append((key, what))
                    print('KNOWN-FINDING: property=%s %s' % (self.pid, k['what']), flush=True)
                return
        os.makedirs(CEX, exist_ok=True)
        blob = json.dumps({'property': self.pid, 'key': key, 'what': what, 'cex': cex}, sort_keys=True, indent=1)
        h = hashlib.sha1(blob.encode()).hexdigest()[:10]
        path = os.path.join(CEX, '%s-%s.json' % (self.pid, h))
        open(path, 'w').write(blob)
        if key not in [v['key'] for v in self.violations]:
            print('VIOLATION property=%s replay=%s' % (self.pid, path), flush=True)
            print('  what: %s' % what, flush=True)
        self.violations.append({'key': key, 'what': what, 'replay': path})

    # -- finish
    def finish(self):
        wall = time.time() - self.t0
        cov = {
            'states': max(self.states, 1),
            'transitions': max(self.transitions, self.queries, 1),
            'traces_validated_against_impl': self.replayed,
            'samples': self.samples or ['(no sample recorded)'],
            'obligations': self.obligations,
            'discharged': self.discharged,
            'evaluations': self.queries,
            'distinct_nontrivial': self.obligations,
            'rule': 'states = symbolic paths / verification conditions explored; transitions = solver queries + symbolic steps; '
                    'evaluations = solver queries issued; distinct_nontrivial = obligations (assertions over symbolic inputs) generated; '
                    'all counted on this run',
            'solver_time_s': round(self.solver_s, 2),
            'functions_encoded': self.functions,
            'bounds': self.bounds,
            'outside_bounds': self.outside,
            'trusted_base': self.trusted,
            'known_findings_hit': [k for k, _ in self.known_hit],
            'inconclusive': self.inconclusive,
            'parts': self.parts,
            'exhaustive': bool(self.extra.get('exhaustive', False)),
        }
        cov.update({k: v for k, v in self.extra.items() if k != 'exhaustive'})
        ev = {
            'property_id': self.pid, 'tier': self.tier, 'seed': seed(), 'level': 'model_checking',
            'coverage': cov, 'assumptions': self.assumptions, 'wall_s': round(wall, 2),
            'violations': len(set(v['key'] for v in self.violations)),
        }
        os.makedirs(EVID, exist_ok=True)
        json.dump(ev, open(os.path.join(EVID, self.pid + '.json'), 'w'), indent=1, default=str)
        if self.violations:
            rc = EXIT_VIOLATION
        elif self.inconclusive:
            rc = EXIT_INCONCLUSIVE
        else:
            rc = EXIT_OK
        print('RESULT property=%s tier=%s obligations=%d discharged=%d queries=%d paths/states=%d solver_s=%.1f wall_s=%.1f exit=%d'
              % (self.pid, self.tier, self.obligations, self.discharged, self.queries, self.states, self.solver_s, wall, rc), flush=True)
        return rc

"""Apply a seeded breakage to /repo, run checks, undo. Usage:
   python3 vf/seedtool.py run <seed-id> <property> [--tier quick]     apply patch, run ./check <property>, revert
   python3 vf/seedtool.py confirm <seed-id>                           confirm the demo in a scratch worktree (fails with, passes without)"""
import json, os, subprocess, sys, time

SEEDED = '/verif/seeded'


def sh(cmd, cwd=None, timeout=3600):
    env = dict(os.environ); env['CARGO_NET_OFFLINE'] = 'true'
    if cwd and cwd.startswith('/tmp/seedconfirm'):
        env['CARGO_TARGET_DIR'] = '/tmp/seedconfirm-target'
    p = subprocess.run(cmd, shell=True, cwd=cwd, stdout=subprocess.PIPE, stderr=subprocess.STDOUT, text=True, timeout=timeout, env=env)
    return p.returncode, p.stdout


def run(seed, prop, tier='quick', scratch=True):
    """scratch=True: run against a scratch worktree (VERIF_REPO) so development in /verif is not disturbed;
    scratch=False: the flow of the brief - apply to /repo, run, undo."""
    d = os.path.join(SEEDED, seed)
    if scratch:
        wt = '/tmp/seedrun/%s-%s' % (seed, prop)
        sh('git -C /repo worktree remove --force %s' % wt)
        os.makedirs('/tmp/seedrun', exist_ok=True)
        rc, out = sh('git -C /repo worktree add --detach %s HEAD' % wt); assert rc == 0, out
        repo = wt
        envs = 'VERIF_REPO=%s VERIF_BUILD=%s/.vbuild ' % (wt, wt)
    else:
        rc, out = sh('git -C /repo status --porcelain')
        assert out.strip() == '', 'repo not clean: ' + out
        repo = '/repo'; envs = ''
    rc, out = sh('git -C %s apply %s/patch.diff' % (repo, d))
    if rc != 0:
        print('PATCH DOES NOT APPLY', out)
        if scratch: sh('git -C /repo worktree remove --force %s' % wt)
        return None
    try:
        t0 = time.time()
        rc, out = sh(envs + './check %s --tier %s' % (prop, tier), cwd='/verif')
        dt = time.time() - t0
    finally:
        if scratch:
            sh('git -C /repo worktree remove --force %s' % wt)
        else:
            sh('git -C /repo checkout -- .')
    lines = [l for l in out.split('\n') if l.startswith(('VIOLATION', 'RESULT', 'INCONCLUSIVE', 'KNOWN', '  what'))]
    print('seed %s property %s tier %s -> exit %d (%.0fs)' % (seed, prop, tier, rc, dt))
    for l in lines[:8]:
        print('   ', l[:300])
    return rc, lines


def confirm(seed):
    d = os.path.join(SEEDED, seed)
    wt = '/tmp/seedconfirm-' + seed.replace('/', '_')
    sh('git -C /repo worktree remove --force %s' % wt)
    rc, out = sh('git -C /repo worktree add --detach %s HEAD' % wt)
    assert rc == 0, out
    res = {}
    try:
        meta = json.load(open(os.path.join(d, 'meta.json')))
        democmd = meta['demo_cmd']
        rc, out = sh('git apply %s/demo.diff' % d, cwd=wt); assert rc == 0, out
        rc1, out1 = sh(democmd, cwd=wt, timeout=3000)
        res['demo_without_patch'] = rc1
        rc, out = sh('git apply %s/patch.diff' % d, cwd=wt); assert rc == 0, out
        rc2, out2 = sh(democmd, cwd=wt, timeout=3000)
        res['demo_with_patch'] = rc2
        sh('git apply -R %s/demo.diff' % d, cwd=wt)
        rc3, out3 = sh('cargo test --workspace --no-fail-fast --offline 2>&1 | grep -E "^test result|FAILED|failed" ', cwd=wt, timeout=3000)
        fails = [l for l in out3.split('\n') if 'FAILED' in l or ('failed' in l and 'test result' not in l)]
        res['suite_with_patch'] = out3.strip().split('\n')[-4:]
        # two pre-existing randomised tests of the repository fail now and then on the unchanged tree (test_div: listed flaky in the baseline;
        # math::test::bigint_and_smallint_babai_reduce_agree: proptest hitting ilog2(0), seen in ~2% of runs) - neither touches the seeded areas
        res['suite_failures'] = [f for f in fails if 'test_div' not in f and 'bigint_and_smallint_babai_reduce_agree' not in f and 'integer logarithm' not in f
                                 and not f.startswith(('error: test failed', 'error: 1 target failed', 'test result: FAILED. 60 passed; 1 failed'))]
    finally:
        sh('git -C /repo worktree remove --force %s' % wt)
    print(json.dumps(res, indent=1))
    ok = res.get('demo_without_patch') == 0 and res.get('demo_with_patch') not in (0, None) and not res.get('suite_failures')
    meta['confirmed'] = {'demo_passes_without_patch': res.get('demo_without_patch') == 0, 'demo_fails_with_patch': res.get('demo_with_patch') not in (0, None),
                         'existing_suite_passes_with_patch': not res.get('suite_failures'), 'ok': ok,
                         'how': 'vf/seedtool.py confirm: scratch worktree of /repo HEAD; demo.diff alone -> demo passes; + patch.diff -> demo fails; patch.diff alone -> cargo test --workspace passes'}
    json.dump(meta, open(os.path.join(d, 'meta.json'), 'w'), indent=1)
    return res


def runmany(pairs, tier='quick', out='/tmp/seedruns.json', slot=''):
    """pairs: [(seed, property)]. One persistent scratch worktree and build directory (incremental builds); results appended to `out`."""
    wt = '/tmp/seedrun/wt' + slot
    os.makedirs('/tmp/seedrun', exist_ok=True)
    if not os.path.exists(wt):
        rc, o = sh('git -C /repo worktree add --detach %s HEAD' % wt); assert rc == 0, o
    else:
        sh('git -C %s checkout -q --detach %s && git -C %s checkout -- .' % (wt, sh('git -C /repo rev-parse HEAD')[1].strip(), wt))
    results = json.load(open(out)) if os.path.exists(out) else {}
    for seed, prop in pairs:
        patch = seed if seed.startswith('/') else os.path.join(SEEDED, seed, 'patch.diff')   # a path: any patch file (e.g. a behaviour-preserving refactoring)
        sh('git -C %s checkout -- . && git -C %s clean -fdq -e .vbuild' % (wt, wt))
        rc, o = sh('git -C %s apply %s' % (wt, patch))
        if rc != 0:
            print('seed %s: PATCH DOES NOT APPLY: %s' % (seed, o[:200]), flush=True)
            results['%s/%s' % (seed, prop)] = {'exit': None, 'note': 'patch does not apply to HEAD'}
            continue
        t0 = time.time()
        rc, o = sh('VERIF_REPO=%s VERIF_BUILD=/tmp/seedrun/build%s ./check %s --tier %s' % (wt, slot, prop, tier), cwd='/verif', timeout=7200)
        dt = time.time() - t0
        lines = [l for l in o.split('\n') if l.startswith(('VIOLATION', 'RESULT', 'INCONCLUSIVE', 'KNOWN', '  what'))]
        print('seed %s property %s tier %s -> exit %d (%.0fs)' % (seed, prop, tier, rc, dt), flush=True)
        for l in lines[:6]:
            print('   ', l[:260], flush=True)
        results['%s/%s' % (seed, prop)] = {'exit': rc, 'seconds': round(dt), 'tier': tier, 'lines': [l[:400] for l in lines[:6]]}
        json.dump(results, open(out, 'w'), indent=1)
    sh('git -C %s checkout -- .' % wt)
    return results


if __name__ == '__main__':
    if sys.argv[1] == 'run':
        tier = sys.argv[sys.argv.index('--tier') + 1] if '--tier' in sys.argv else 'quick'
        run(sys.argv[2], sys.argv[3], tier, scratch='--in-repo' not in sys.argv)
    elif sys.argv[1] == 'runmany':
        tier = sys.argv[sys.argv.index('--tier') + 1] if '--tier' in sys.argv else 'quick'
        pairs = [a.split(':') for a in sys.argv[2:] if ':' in a]
        out = sys.argv[sys.argv.index('--out') + 1] if '--out' in sys.argv else '/tmp/seedruns.json'
        slot = sys.argv[sys.argv.index('--slot') + 1] if '--slot' in sys.argv else ''
        runmany(pairs, tier, out, slot)
    elif sys.argv[1] == 'confirm':
        confirm(sys.argv[2])

"""Systematic single-token mutation sweep (development aid, not a registered check).

For each mutant of the listed source regions: (1) the repository's own test suite must still compile and pass (mutants the
tests kill are discarded - the brief asks for breakages the tests miss); (2) the listed checks are run against the mutated
scratch tree (VERIF_REPO). Survivors (all checks exit 0) are the interesting output: each is either an equivalent mutant or a
hole in a check.  Usage: python3 vf/mutsweep.py <plan-name> [--max N] [--seed S]"""
import json, os, random, re, subprocess, sys, time

WT = '/tmp/mutsweep/wt'
BUILD = '/tmp/mutsweep/build'
OUT = '/tmp/mutsweep/results.json'

# region = (file, first line pattern, last line pattern, [properties])
PLANS = {
    'encoding': [('falcon-rust/src/encoding.rs', r'^pub\(crate\) fn compress\(', r'^fn compress_coefficient', ['C07']),
                 ('falcon-rust/src/encoding.rs', r'^fn compress_coefficient', r'^///  This is a deprecated decompress', ['C07']),
                 ('falcon-rust/src/encoding.rs', r'^pub\(crate\) fn decompress\(', r'^#\[cfg\(test\)\]', ['C07'])],
    'verify': [('falcon-rust/src/falcon.rs', r'^pub fn verify<', r'^#\[cfg\(test\)\]', ['C02']),
               ('falcon-rust/src/falcon.rs', r'pub\(crate\) const fn parameters', r'^#\[derive\(Debug\)\]', ['C02'])],
    'parsers': [('falcon-rust/src/falcon.rs', r'fn field_element_width', r'^impl<const N: usize> PartialEq for SecretKey', ['C06', 'C05']),
                ('falcon-rust/src/falcon.rs', r'pub fn from_bytes\(byte_array', r'^// Generate a key pair', ['C06', 'C05'])],
    'field': [('falcon-rust/src/falcon_field.rs', r'^impl Felt \{', r'^impl Distribution<Felt>', ['C12']),
              ('falcon-rust/src/falcon_field.rs', r'^impl Inverse for Felt', r'^#\[allow\(clippy::suspicious_arithmetic_impl\)\]\nimpl Div', ['C12'])],
    'h2p': [('falcon-rust/src/polynomial.rs', r'^pub\(crate\) fn hash_to_point', r'^impl<T: Display> Display for Polynomial', ['C14'])],
    'ntt': [('falcon-rust/src/cyclotomic_fourier.rs', r'    fn fft\(a: &mut \[Self\]', r'^impl CyclotomicFourier for Complex64', ['C11']),
            ('falcon-rust/src/fast_fft.rs', r'^impl FastFft for Polynomial<Felt>', r'^const U32_FIELD_PSI_REV_1024', ['C11'])],
    'sampler': [('falcon-rust/src/samplerz.rs', r'^fn base_sampler', r'^/// Sample an integer from the Gaussian', ['C09'])],
}


def sh(cmd, cwd=None, timeout=3600, env=None):
    e = dict(os.environ); e['CARGO_NET_OFFLINE'] = 'true'; e['CARGO_TARGET_DIR'] = '/tmp/mutsweep/target'
    if env: e.update(env)
    try:
        p = subprocess.run(cmd, shell=True, cwd=cwd, stdout=subprocess.PIPE, stderr=subprocess.STDOUT, text=True, timeout=timeout, env=e)
        return p.returncode, p.stdout
    except subprocess.TimeoutExpired:
        return -9, 'timeout'


OPS = [
    (r'<=', ['<']), (r'>=', ['>']), (r'(?<![<>=!\-])<(?![<=])', ['<=']), (r'(?<![<>=\-])>(?![>=])', ['>=']),
    (r'==', ['!=']), (r'!=', ['==']), (r'&&', ['||']), (r'\|\|', ['&&']),
    (r'(?<![\w.])(\d+)(?![\w.])', ['+1', '-1']),
    (r' \+ ', [' - ']), (r' - ', [' + ']), (r'<<', ['>>']), (r'>>', ['<<']),
    (r'\|=', ['&=']), (r' \| ', [' & ']), (r' & ', [' | ']),
]


def mutants_of(lines, lo, hi):
    out = []
    for ln in range(lo, hi):
        text = lines[ln]
        code = text.split('//')[0]
        if not code.strip() or code.strip().startswith(('#', 'use ', '///', 'fn ', 'pub fn', 'pub(crate) fn', '}', 'let mut result', 'panic!')):
            continue
        for pat, repls in OPS:
            for m in re.finditer(pat, code):
                for r in repls:
                    if r in ('+1', '-1'):
                        v = int(m.group(1)) + (1 if r == '+1' else -1)
                        if v < 0: continue
                        new = code[:m.start(1)] + str(v) + code[m.end(1):]
                    else:
                        new = code[:m.start()] + r + code[m.end():]
                    if new != code:
                        out.append((ln, text, new + text[len(code):], '%s -> %s at col %d' % (m.group(0), r, m.start())))
    return out


def main():
    plan = sys.argv[1]
    maxn = int(sys.argv[sys.argv.index('--max') + 1]) if '--max' in sys.argv else 40
    rnd = random.Random(int(sys.argv[sys.argv.index('--seed') + 1]) if '--seed' in sys.argv else 1)
    os.makedirs('/tmp/mutsweep', exist_ok=True)
    if not os.path.exists(WT):
        rc, o = sh('git -C /repo worktree add --detach %s HEAD' % WT); assert rc == 0, o
    sh('git -C %s checkout -q --detach $(git -C /repo rev-parse HEAD) && git -C %s checkout -- .' % (WT, WT))
    results = json.load(open(OUT)) if os.path.exists(OUT) else {}
    cands = []
    for f, a, b, props in PLANS[plan]:
        lines = open(os.path.join(WT, f)).read().split('\n')
        lo = next(i for i, l in enumerate(lines) if re.search(a, l))
        hi = next(i for i, l in enumerate(lines) if i > lo and re.search(b.split('\n')[0], l))
        for mu in mutants_of(lines, lo, hi):
            cands.append((f, props) + mu)
    rnd.shuffle(cands)
    print('%d candidate mutants in plan %s, running up to %d' % (len(cands), plan, maxn), flush=True)
    done = 0
    for f, props, ln, old, new, desc in cands:
        key = '%s:%d:%s' % (f, ln + 1, desc)
        if key in results or done >= maxn:
            continue
        path = os.path.join(WT, f)
        src = open(path).read().split('\n')
        src[ln] = new
        open(path, 'w').write('\n'.join(src))
        t0 = time.time()
        rc, o = sh('cargo test --workspace --no-fail-fast --offline 2>&1 | tail -60', cwd=WT, timeout=1200)
        fails = [l for l in o.split('\n') if (' FAILED' in l or 'error' in l.lower()) and 'test_div' not in l and 'bigint_and_smallint' not in l]
        res = {'line': old.strip()[:120], 'mutant': new.strip()[:120], 'tests': 'pass' if not fails else 'killed', 'checks': {}}
        if not fails:
            for p in props:
                rc2, o2 = sh('VERIF_REPO=%s VERIF_BUILD=%s ./check %s --tier quick' % (WT, BUILD, p), cwd='/verif', timeout=3600)
                res['checks'][p] = {'exit': rc2, 'what': [l[:200] for l in o2.split('\n') if l.startswith(('  what', 'INCONCLUSIVE'))][:2]}
                if rc2 == 1:
                    break
            done += 1
        res['seconds'] = round(time.time() - t0)
        results[key] = res
        json.dump(results, open(OUT, 'w'), indent=1)
        verdict = res['tests'] if fails else ('CAUGHT ' + ','.join(p for p, v in res['checks'].items() if v['exit'] == 1) if any(v['exit'] == 1 for v in res['checks'].values())
                                              else ('INCONCLUSIVE' if any(v['exit'] == 2 for v in res['checks'].values()) else 'SURVIVED'))
        print('%-12s %s:%d  %s   [%s]  (%ds)' % (verdict, os.path.basename(f), ln + 1, desc, new.strip()[:70], res['seconds']), flush=True)
        sh('git -C %s checkout -- .' % WT)
    sh('git -C %s checkout -- .' % WT)


if __name__ == '__main__':
    main()

"""Engine K: run Kani harnesses compiled into the crate (hooks under /verif/hooks), parse verdicts."""
import os, re, shutil, time
from .common import *

KANI_TARGET = os.path.join(BUILD, 'kani-target')


class HarnessResult:
    def __init__(self, name):
        self.name = name
        self.status = None          # 'SUCCESSFUL' | 'FAILED' | None (no verdict: timeout / crash)
        self.failed_checks = []
        self.covers_sat = 0
        self.covers_total = 0
        self.time_s = 0.0
        self.vccs = 0
        self.vccs_remaining = 0
        self.unwind_failure = False
        self.raw = ''
        self.checks_total = 0

    def __repr__(self):
        return 'HarnessResult(%s,%s,%s,cov %d/%d,%.1fs)' % (self.name, self.status, self.failed_checks, self.covers_sat, self.covers_total, self.time_s)


def _parse(out):
    """handles both the sequential regular output and the `-j N --output-format terse` output
    (result blocks labelled `Thread k:`; the harness is the last one announced on that thread)."""
    res = {}
    cur_by_thread = {}
    cur = None          # HarnessResult receiving lines
    for line in out.split('\n'):
        m = re.match(r'(?:Thread (\d+): )?Checking harness ([\w:]+)\.\.\.', line)
        if m:
            name = m.group(2).split('::')[-1]
            r = res.setdefault(name, HarnessResult(name))
            cur_by_thread[m.group(1)] = r
            if m.group(1) is None:
                cur = r
            continue
        m = re.match(r'Thread (\d+):\s*$', line)
        if m:
            cur = cur_by_thread.get(m.group(1))
            continue
        if cur is None:
            continue
        cur.raw += line + '\n'
        m = re.search(r'VERIFICATION:- (\w+)', line)
        if m:
            cur.status = m.group(1)
        m = re.match(r'Failed Checks: (.*)', line)
        if m:
            cur.failed_checks.append(m.group(1).strip())
            if 'unwinding assertion' in line:
                cur.unwind_failure = True
        m = re.search(r'\*\* (\d+) of (\d+) cover properties satisfied', line)
        if m:
            cur.covers_sat, cur.covers_total = int(m.group(1)), int(m.group(2))
        m = re.search(r'Verification Time: ([\d.]+)s', line)
        if m:
            cur.time_s = float(m.group(1))
        m = re.search(r'Generated (\d+) VCC\(s\), (\d+) remaining after simplification', line)
        if m:
            cur.vccs, cur.vccs_remaining = int(m.group(1)), int(m.group(2))
        m = re.search(r'\*\* (\d+) of (\d+) failed', line)
        if m:
            cur.checks_total = int(m.group(2))
    return res


def run_group(harnesses, timeout, target=None, extra_args=None, exact=False, jobs=1):
    """one cargo-kani invocation over the given harness names (sequential inside)."""
    target = target or KANI_TARGET
    cmd = ['cargo', 'kani', '--target-dir', target]
    if exact:
        cmd.append('--exact')
    for h in harnesses:
        cmd += ['--harness', h]
    if jobs > 1:
        cmd += ['-j', str(jobs), '--output-format', 'terse']
    cmd += extra_args or []
    rc, out, secs = run(cmd, timeout=timeout, cwd=CRATE, env=env_offline())
    res = _parse(out)
    for h in harnesses:
        short = h.split('::')[-1]
        if short not in res:
            r = HarnessResult(short)
            r.raw = out[-3000:]
            res[short] = r
    return res, out, secs, rc


def run_parallel(groups, timeout, jobs=None):
    """groups: list of lists of harness names; each group runs in its own process and target dir
    (first group uses the shared one so the build is reused). Returns merged {name: HarnessResult}."""
    from concurrent.futures import ThreadPoolExecutor
    jobs = jobs or NCPU
    os.makedirs(BUILD, exist_ok=True)
    merged = {}

    def work(ix_group):
        ix, g = ix_group
        tgt = KANI_TARGET if ix == 0 else os.path.join(BUILD, 'kani-target-%d' % ix)
        return run_group(g, timeout, target=tgt)

    with ThreadPoolExecutor(max_workers=jobs) as ex:
        for res, out, secs, rc in ex.map(work, list(enumerate(groups))):
            merged.update(res)
    return merged


def full_harness_names():
    """not needed with --exact off; kept for reference"""
    return None


def playback_values(harness, timeout=600, target=None):
    """re-run one failing harness with concrete playback; return list of byte lists (one per kani::any())"""
    cmd = ['cargo', 'kani', '--target-dir', target or KANI_TARGET, '--harness', harness,
           '-Z', 'concrete-playback', '--concrete-playback=print']
    rc, out, secs = run(cmd, timeout=timeout, cwd=CRATE, env=env_offline())
    tests = []
    for m in re.finditer(r'let concrete_vals: Vec<Vec<u8>> = vec!\[(.*?)\];\s*kani::concrete_playback_run', out, re.S):
        vals = []
        for v in re.finditer(r'vec!\[([\d,\s]*)\]', m.group(1)):
            vals.append([int(x) for x in v.group(1).replace(' ', '').split(',') if x])
        tests.append(vals)
    return tests, out


def le_int(bs, signed=False):
    v = int.from_bytes(bytes(bs), 'little', signed=signed)
    return v
